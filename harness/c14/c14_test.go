// C14 HyperLogLog state depends only on the set offered; merge equals union.
//
// The oracle is an independent register model (one uint8 per register, hash and
// rank written from the algorithm's definition with math/bits, serialisation
// and estimator written from the layout / the paper); it shares no code with
// /repo/util/hll.
package c14

import (
	"bytes"
	"encoding/binary"
	"fmt"
	"math"
	"math/bits"
	"sort"
	"testing"
	"time"

	"github.com/whatap/golib/util/hll"
	"pgregory.net/rapid"
	"verif/pbt"
)

func TestMain(m *testing.M) { pbt.Main(m, "C14") }

func TestReplay(t *testing.T) { pbt.Replay(t) }

// ---- reference hash: MurmurHash2 "hashLong" of stream-lib, written in Java's int arithmetic ----

func refHashLong(data uint64) uint32 {
	m := int32(0x5bd1e995)
	d := int64(data)
	h := int32(0)
	k := int32(d) * m
	k ^= int32(uint32(k) >> 24)
	h ^= k * m
	k = int32(d>>32) * m
	k ^= int32(uint32(k) >> 24)
	h *= m
	h ^= k * m
	h ^= int32(uint32(h) >> 13)
	h *= m
	h ^= int32(uint32(h) >> 15)
	return uint32(h)
}

// ---- inverse of the hash (generator side only): an item with a chosen hash ----

const murM = uint32(0x5bd1e995)

var murMInv = func() uint32 { // multiplicative inverse of the odd constant modulo 2^32 (Newton iteration)
	x := murM
	for i := 0; i < 6; i++ {
		x *= 2 - murM*x
	}
	if x*murM != 1 {
		panic("harness: inverse of the murmur multiplier is wrong")
	}
	return x
}()

func unXorShift(y uint32, s uint) uint32 {
	x := y
	for i := 0; i < 32; i += int(s) {
		x = y ^ (x >> s)
	}
	return x
}

// craftItem returns an item with upper half hi whose reference hash is target.
func craftItem(target, hi uint32) uint64 {
	h := unXorShift(target, 15)
	h *= murMInv
	h = unXorShift(h, 13)
	k2 := hi * murM
	k2 ^= k2 >> 24
	h ^= k2 * murM
	h *= murMInv // = k1' * m
	k1 := unXorShift(h*murMInv, 24)
	item := uint64(hi)<<32 | uint64(k1*murMInv)
	if refHashLong(item) != target {
		panic(fmt.Sprintf("harness: crafted item %#x hashes to %#x, wanted %#x", item, refHashLong(item), target))
	}
	return item
}

// ---- reference HyperLogLog ----

type refHLL struct {
	p   uint
	reg []uint8
}

func newRef(p int) *refHLL { return &refHLL{p: uint(p), reg: make([]uint8, 1<<uint(p))} }

func (r *refHLL) clone() *refHLL {
	return &refHLL{p: r.p, reg: append([]uint8(nil), r.reg...)}
}

// offer: register = the leading p bits of the hash; rank = position of the first
// 1-bit among the remaining 32-p bits (1-based), or 32-p+1 when they are all zero.
func (r *refHLL) offer(h uint32) bool {
	idx := h >> (32 - r.p)
	rest := h << r.p
	rank := uint8(32 - r.p + 1)
	if rest != 0 {
		rank = uint8(bits.LeadingZeros32(rest) + 1)
	}
	if rank > r.reg[idx] {
		r.reg[idx] = rank
		return true
	}
	return false
}

func (r *refHLL) merge(o *refHLL) {
	for i, v := range o.reg {
		if v > r.reg[i] {
			r.reg[i] = v
		}
	}
}

// bytes: precision (i32 BE), word count (i32 BE), ceil(m/6) words (u32 BE), register i in
// word i/6 at bit offset 5*(i%6).
func packRegs(reg []uint8) []uint32 {
	words := make([]uint32, (len(reg)+5)/6)
	for i, v := range reg {
		words[i/6] |= uint32(v&0x1f) << (5 * uint(i%6))
	}
	return words
}

func (r *refHLL) bytes() []byte {
	words := packRegs(r.reg)
	out := make([]byte, 0, 8+4*len(words))
	out = binary.BigEndian.AppendUint32(out, uint32(r.p))
	out = binary.BigEndian.AppendUint32(out, uint32(len(words)))
	for _, w := range words {
		out = binary.BigEndian.AppendUint32(out, w)
	}
	return out
}

// estimate returns the real-valued estimate of the algorithm (before rounding):
// E = alpha_m * m^2 / sum 2^-M[j]; if E <= 5/2 m and V (empty registers) != 0 then m ln(m/V).
func (r *refHLL) estimate() float64 {
	m := float64(len(r.reg))
	var alpha float64
	switch r.p {
	case 4:
		alpha = 0.673
	case 5:
		alpha = 0.697
	case 6:
		alpha = 0.709
	default:
		alpha = 0.7213 / (1 + 1.079/m)
	}
	// every term is a power of two >= 2^-32; sum them as integers (exact)
	var s uint64
	v := 0
	for _, x := range r.reg {
		s += uint64(1) << (32 - uint(x))
		if x == 0 {
			v++
		}
	}
	sum := float64(s) / float64(uint64(1)<<32)
	e := alpha * m * m / sum
	if e <= 2.5*m && v != 0 {
		return m * math.Log(m/float64(v))
	}
	return e
}

// cardOK: got must be the estimate rounded to the nearest integer; when the estimate is
// within 1e-9 (relative) of a rounding boundary either neighbour is accepted (the order of
// the floating-point operations is not part of the property).
func cardOK(got uint64, e float64) bool {
	eps := 1e-9 * math.Max(1, e)
	lo := uint64(math.Floor(e + 0.5 - eps))
	hi := uint64(math.Floor(e + 0.5 + eps))
	return got == lo || got == hi
}

// ---- case ----

type Seg struct {
	K string   `json:"k"`           // "seq": A, A+S, A+2S, …  | "rnd": splitmix64 stream seeded with A | "list": explicit items
	A uint64   `json:"a,omitempty"` // start / seed
	S uint64   `json:"s,omitempty"` // step
	N int      `json:"n,omitempty"` // number of items
	L []uint64 `json:"l,omitempty"` // explicit items (crafted hashes)
}

type Case struct {
	P       int    `json:"p"`
	Wide    bool   `json:"wide"`         // true: OfferLong(uint64); false: Offer(uint32), items truncated to 32 bits
	Default bool   `json:"default_ctor"` // P == 10 only: NewHyperLogLogDefault()
	Segs    []Seg  `json:"segs"`         // the multiset offered, in this order
	Fair    bool   `json:"fair"`         // items are not chosen by their hash: the accuracy envelope applies
	Shuf    uint64 `json:"shuf"`         // seed of the reordering / duplication / partition
	DupPc   int    `json:"dup_pc"`       // percentage of items offered once more in the reordered run
	Parts   int    `json:"parts"`        // number of counters the items are split over before merging
	OvlPc   int    `json:"ovl_pc"`       // percentage of items given to a second part as well
	Extra   int    `json:"extra"`        // items offered to the rebuilt counter after the round trip
}

func splitmix(x *uint64) uint64 {
	*x += 0x9e3779b97f4a7c15
	z := *x
	z = (z ^ (z >> 30)) * 0xbf58476d1ce4e5b9
	z = (z ^ (z >> 27)) * 0x94d049bb133111eb
	return z ^ (z >> 31)
}

func (c Case) items() []uint64 {
	var out []uint64
	for _, s := range c.Segs {
		switch s.K {
		case "seq":
			for i := 0; i < s.N; i++ {
				out = append(out, s.A+uint64(i)*s.S)
			}
		case "rnd":
			st := s.A
			for i := 0; i < s.N; i++ {
				out = append(out, splitmix(&st))
			}
		case "list":
			out = append(out, s.L...)
		default:
			panic("unknown segment kind " + s.K)
		}
	}
	if !c.Wide {
		for i := range out {
			out[i] = uint64(uint32(out[i]))
		}
	}
	return out
}

func distinct(items []uint64) int {
	s := append([]uint64(nil), items...)
	sort.Slice(s, func(i, j int) bool { return s[i] < s[j] })
	n := 0
	for i := range s {
		if i == 0 || s[i] != s[i-1] {
			n++
		}
	}
	return n
}

type counter struct {
	h    *hll.HyperLogLog
	wide bool
}

func (c counter) offer(x uint64) bool {
	if c.wide {
		return c.h.OfferLong(x)
	}
	return c.h.Offer(uint32(x))
}

func newCounter(c Case) counter {
	if c.Default && c.P == 10 {
		return counter{hll.NewHyperLogLogDefault(), c.Wide}
	}
	return counter{hll.NewHyperLogLogInt(uint32(c.P)), c.Wide}
}

func snap(h *hll.HyperLogLog) []byte { return append([]byte(nil), h.GetBytes()...) }

func diffAt(a, b []byte) string {
	if len(a) != len(b) {
		return fmt.Sprintf("lengths %d vs %d", len(a), len(b))
	}
	for i := range a {
		if a[i] != b[i] {
			return fmt.Sprintf("first difference at byte %d (%#02x vs %#02x; word %d)", i, a[i], b[i], (i-8)/4)
		}
	}
	return "equal"
}

var (
	worstEnvelope float64 // max of |estimate-n| / allowed over all fair cases
	worstSigma    float64 // max of |estimate-n| / (1.04/sqrt(m) * n) for n > 2.5m
	worstSigmaAt  string
)

// allowedError is the sanity envelope for the estimate of n distinct fairly hashed items.
//
// General range: max(3, 12 * 1.04/sqrt(m) * n, 0.06 n) (twelve standard errors of the algorithm, with a
// floor that covers the known bias of the raw estimator at the hand-over from linear counting).
//
// Small sets (n <= m/20, always linear counting): "near-exact" = max(2, 0.06 n), widened only as far as
// probability forces it: the estimate falls short of n by the number C of items that hit an already
// occupied register; the i-th item does so with probability <= (i-1)/m whatever happened before, so C is
// dominated by a sum of independent Bernoulli variables of mean lambda = n(n-1)/2m and
// P(C >= k) <= exp(-lambda) (e lambda / k)^k. The allowance is the smallest k with that bound <= 1e-12
// (so that a correct implementation fails this clause less than once in 10^12 cases), plus 1 for rounding.
func allowedError(n, m int) float64 {
	fn := float64(n)
	if n <= m/20 {
		lambda := fn * (fn - 1) / (2 * float64(m))
		k := math.Ceil(lambda) + 1
		for lambda > 0 && -lambda+k-k*math.Log(k/lambda) > math.Log(1e-12) {
			k++
		}
		return math.Max(math.Max(2, 0.06*fn), k+1)
	}
	return math.Max(3, math.Max(12*1.04/math.Sqrt(float64(m))*fn, 0.06*fn))
}

func runCase(c Case) *pbt.Result {
	if c.P < 4 || c.P > 16 {
		panic("precision outside 4..16")
	}
	m := 1 << uint(c.P)
	items := c.items()
	n := distinct(items)

	// (1) same offers to golib and to the reference: Offer's boolean, bytes
	g := newCounter(c)
	r := newRef(c.P)
	if !bytes.Equal(g.h.GetBytes(), r.bytes()) {
		return pbt.Fail("fresh counter p=%d: GetBytes() = %x, reference %x", c.P, g.h.GetBytes(), r.bytes())
	}
	if got := g.h.Cardinality(); got != 0 {
		return pbt.Fail("fresh counter p=%d: Cardinality() = %d, want 0", c.P, got)
	}
	if g.h.Sizeof() != 4*((m+5)/6) {
		return pbt.Fail("p=%d: Sizeof() = %d, want %d (ceil(m/6) words)", c.P, g.h.Sizeof(), 4*((m+5)/6))
	}
	var heldMid, wantMid []byte
	for i, x := range items {
		want := r.offer(refHashLong(x))
		got := g.offer(x)
		if got != want {
			return pbt.Fail("offer #%d of item %#x (hash %#08x, register %d): returned %v, but the register %s",
				i, x, refHashLong(x), refHashLong(x)>>(32-uint(c.P)), got, map[bool]string{true: "increased", false: "did not increase"}[want])
		}
		if i == len(items)/2 {
			gb, rb := g.h.GetBytes(), r.bytes()
			if !bytes.Equal(gb, rb) {
				return pbt.Fail("after %d offers: GetBytes() differs from the reference serialisation: %s", i+1, diffAt(gb, rb))
			}
			// the serialisation taken now is kept as it was handed out (a snapshot on its way to the collector)
			heldMid, wantMid = gb, append([]byte(nil), rb...)
		}
	}
	full := snap(g.h)
	if heldMid != nil && !bytes.Equal(heldMid, wantMid) {
		return pbt.Fail("the bytes GetBytes() returned after %d offers changed when the counter took %d more offers and was serialised again: %s", len(items)/2+1, len(items)-len(items)/2-1, diffAt(heldMid, wantMid))
	}
	if rb := r.bytes(); !bytes.Equal(full, rb) {
		return pbt.Fail("after %d offers (p=%d): GetBytes() differs from the reference serialisation: %s\n golib %x\n ref   %x", len(items), c.P, diffAt(full, rb), trunc(full), trunc(rb))
	}

	// (5) estimate == reference estimator on the registers
	e := r.estimate()
	card := g.h.Cardinality()
	if !cardOK(card, e) {
		return pbt.Fail("p=%d, %d distinct items: Cardinality() = %d, reference estimator gives %.6f", c.P, n, card, e)
	}

	// (6) sanity envelope
	if c.Fair {
		allowed := allowedError(n, m)
		dev := math.Abs(float64(card) - float64(n))
		if dev > allowed {
			return pbt.Fail("p=%d (m=%d), %d distinct items: Cardinality() = %d, off by %.0f, more than the sanity envelope %.1f", c.P, m, n, card, dev, allowed)
		}
		if q := dev / allowed; q > worstEnvelope {
			worstEnvelope = q
		}
		if n > 5*m/2 {
			if q := dev / (1.04 / math.Sqrt(float64(m)) * float64(n)); q > worstSigma {
				worstSigma = q
				worstSigmaAt = fmt.Sprintf("p=%d n=%d estimate=%d", c.P, n, card)
			}
		}
	}

	// (2) reordering and duplicating the offers leaves the state unchanged
	st := c.Shuf
	perm := append([]uint64(nil), items...)
	for _, x := range items {
		if int(splitmix(&st)%100) < c.DupPc {
			perm = append(perm, x)
		}
	}
	for i := len(perm) - 1; i > 0; i-- {
		j := int(splitmix(&st) % uint64(i+1))
		perm[i], perm[j] = perm[j], perm[i]
	}
	g2 := newCounter(c)
	for _, x := range perm {
		g2.offer(x)
	}
	if b2 := g2.h.GetBytes(); !bytes.Equal(b2, full) {
		return pbt.Fail("p=%d: the same %d items offered in another order with %d repetitions give a different state: %s", c.P, len(items), len(perm)-len(items), diffAt(b2, full))
	}
	if c2 := g2.h.Cardinality(); c2 != card {
		return pbt.Fail("p=%d: same state, but Cardinality() = %d and %d", c.P, card, c2)
	}

	// (4) serialise / rebuild
	b := hll.BuildHyperLogLog(append([]byte(nil), full...))
	if bb := b.GetBytes(); !bytes.Equal(bb, full) {
		return pbt.Fail("BuildHyperLogLog(GetBytes()).GetBytes() differs: %s", diffAt(bb, full))
	}
	if bc := b.Cardinality(); bc != card {
		return pbt.Fail("BuildHyperLogLog(GetBytes()).Cardinality() = %d, original %d", bc, card)
	}
	if c.Extra > 0 { // the rebuilt counter keeps counting like the original
		rb := r.clone()
		bcnt := counter{b, c.Wide}
		xs := c.Shuf ^ 0xabcdef
		for i := 0; i < c.Extra; i++ {
			x := splitmix(&xs)
			if !c.Wide {
				x = uint64(uint32(x))
			}
			want := rb.offer(refHashLong(x))
			if got := bcnt.offer(x); got != want {
				return pbt.Fail("rebuilt counter: offer of %#x returned %v, reference %v", x, got, want)
			}
		}
		if bb, want := b.GetBytes(), rb.bytes(); !bytes.Equal(bb, want) {
			return pbt.Fail("rebuilt counter after %d further offers differs from the reference: %s", c.Extra, diffAt(bb, want))
		}
		if !bytes.Equal(g.h.GetBytes(), full) {
			return pbt.Fail("offering to the rebuilt counter changed the original counter")
		}
	}

	// (3) merge == union
	overlap := false
	if c.Parts >= 1 {
		k := c.Parts
		parts := make([]counter, k)
		refs := make([]*refHLL, k)
		for i := range parts {
			parts[i] = newCounter(c)
			refs[i] = newRef(c.P)
		}
		ps := c.Shuf ^ 0x5eed5eed
		for _, x := range items {
			a := int(splitmix(&ps) % uint64(k))
			parts[a].offer(x)
			refs[a].offer(refHashLong(x))
			if k > 1 && int(splitmix(&ps)%100) < c.OvlPc {
				b := (a + 1 + int(splitmix(&ps)%uint64(k-1))) % k
				parts[b].offer(x)
				refs[b].offer(refHashLong(x))
				overlap = true
			}
		}
		snaps := make([][]byte, k)
		hs := make([]*hll.HyperLogLog, k)
		for i := range parts {
			hs[i] = parts[i].h
			snaps[i] = snap(hs[i])
			if want := refs[i].bytes(); !bytes.Equal(snaps[i], want) {
				return pbt.Fail("part %d of %d differs from the reference: %s", i, k, diffAt(snaps[i], want))
			}
		}
		unchanged := func(when string) *pbt.Result {
			for i := range hs {
				if now := hs[i].GetBytes(); !bytes.Equal(now, snaps[i]) {
					return pbt.Fail("%s changed operand %d of %d: %s", when, i, k, diffAt(now, snaps[i]))
				}
			}
			return nil
		}
		u := hs[0].Merge(hs[1:]...)
		if ub := u.GetBytes(); !bytes.Equal(ub, full) {
			return pbt.Fail("p=%d: parts[0].Merge(parts[1..%d]) differs from the counter that saw the union: %s", c.P, k-1, diffAt(ub, full))
		}
		if uc := u.Cardinality(); uc != card {
			return pbt.Fail("merged counter: Cardinality() = %d, counter of the union %d", uc, card)
		}
		if res := unchanged("Merge"); res != nil {
			return res
		}
		// the slice of operands is the caller's: merging a prefix of it (incremental merging, batching) must leave the
		// caller's slice as it was, also the elements behind the prefix (the slice has spare capacity, as slices have)
		{
			room := make([]*hll.HyperLogLog, k, k+3)
			copy(room, hs)
			for cut := 0; cut <= k; cut++ {
				recv := hs[cut%k]
				recv.Merge(room[:cut]...)
				full3 := room[:k+1]
				for i := range full3 {
					if (i < k && full3[i] != hs[i]) || (i == k && full3[i] != nil) {
						return pbt.Fail("p=%d: Merge called with the first %d of the caller's %d operands changed element %d of the caller's slice", c.P, cut, k, i)
					}
				}
			}
			if vb := room[0].Merge(room[1:]...).GetBytes(); !bytes.Equal(vb, full) {
				return pbt.Fail("p=%d: after merges over prefixes of the operand slice, merging all of it differs from the union: %s", c.P, diffAt(vb, full))
			}
		}
		if k >= 2 {
			rev := make([]*hll.HyperLogLog, 0, k-1)
			for i := k - 2; i >= 0; i-- {
				rev = append(rev, hs[i])
			}
			if vb := hs[k-1].Merge(rev...).GetBytes(); !bytes.Equal(vb, full) {
				return pbt.Fail("p=%d: merging the %d parts in reverse order gives another state (not commutative): %s", c.P, k, diffAt(vb, full))
			}
			ab, ba := hs[0].Merge(hs[1]).GetBytes(), hs[1].Merge(hs[0]).GetBytes()
			if !bytes.Equal(ab, ba) {
				return pbt.Fail("a.Merge(b) != b.Merge(a): %s", diffAt(ab, ba))
			}
			pair := refs[0].clone()
			pair.merge(refs[1])
			if want := pair.bytes(); !bytes.Equal(ab, want) {
				return pbt.Fail("a.Merge(b) differs from the element-wise maximum of the registers: %s", diffAt(ab, want))
			}
		}
		if k >= 3 {
			left := hs[0].Merge(hs[1]).Merge(hs[2:]...)
			right := hs[0].Merge(hs[1].Merge(hs[2:]...))
			if lb, rb := left.GetBytes(), right.GetBytes(); !bytes.Equal(lb, rb) || !bytes.Equal(lb, full) {
				return pbt.Fail("merge is not associative: (a+b)+c vs a+(b+c): %s; vs union: %s", diffAt(lb, rb), diffAt(lb, full))
			}
		}
		// idempotent
		if sb := hs[0].Merge(hs[0]).GetBytes(); !bytes.Equal(sb, snaps[0]) {
			return pbt.Fail("a.Merge(a) differs from a: %s", diffAt(sb, snaps[0]))
		}
		if sb := u.Merge(u, hs[k-1]).GetBytes(); !bytes.Equal(sb, full) {
			return pbt.Fail("u.Merge(u, part) differs from u although the part is contained in u: %s", diffAt(sb, full))
		}
		// a merge result is a new counter: feeding it must not write through to an operand
		cp := hs[0].Merge()
		if cb := cp.GetBytes(); !bytes.Equal(cb, snaps[0]) {
			return pbt.Fail("a.Merge() differs from a: %s", diffAt(cb, snaps[0]))
		}
		xs := c.Shuf ^ 0x77
		for i := 0; i < 8; i++ {
			counter{cp, c.Wide}.offer(splitmix(&xs))
			counter{u, c.Wide}.offer(splitmix(&xs))
		}
		if res := unchanged("offering to a merge result"); res != nil {
			return res
		}
		// AddAll: in-place union, argument untouched
		acc := hll.BuildHyperLogLog(append([]byte(nil), snaps[0]...))
		for i := 1; i < k; i++ {
			// the estimate is observed between the in-place merges: it is a function of the state only,
			// whatever was asked or merged before
			if ac, bc := acc.Cardinality(), hll.BuildHyperLogLog(append([]byte(nil), acc.GetBytes()...)).Cardinality(); ac != bc {
				return pbt.Fail("before AddAll #%d: Cardinality() = %d but a counter rebuilt from the same bytes estimates %d", i, ac, bc)
			}
			acc.AddAll(hs[i])
		}
		if ab := acc.GetBytes(); !bytes.Equal(ab, full) {
			return pbt.Fail("AddAll of the other %d parts differs from the counter of the union: %s", k-1, diffAt(ab, full))
		}
		if ac := acc.Cardinality(); ac != card {
			return pbt.Fail("after AddAll of the other %d parts the state equals the union's but Cardinality() = %d, the union's counter estimates %d (stale estimate)", k-1, ac, card)
		}
		if res := unchanged("AddAll"); res != nil {
			return res
		}
		// counters rebuilt from their serialised form (what a collector holds after receiving them) are operands like any
		// other, before anything was offered to them
		rb := make([]*hll.HyperLogLog, k)
		for i := range rb {
			rb[i] = hll.BuildHyperLogLog(append([]byte(nil), snaps[i]...))
		}
		if ub := rb[0].Merge(rb[1:]...).GetBytes(); !bytes.Equal(ub, full) {
			return pbt.Fail("p=%d: merging %d counters rebuilt from their bytes differs from the counter that saw the union: %s", c.P, k, diffAt(ub, full))
		}
		if k >= 2 {
			if ub := hs[0].Merge(rb[1:]...).GetBytes(); !bytes.Equal(ub, full) {
				return pbt.Fail("p=%d: merging rebuilt counters into an offered-to counter differs from the union: %s", c.P, diffAt(ub, full))
			}
			if ub := rb[0].Merge(hs[1:]...).GetBytes(); !bytes.Equal(ub, full) {
				return pbt.Fail("p=%d: merging offered-to counters into a rebuilt counter differs from the union: %s", c.P, diffAt(ub, full))
			}
		}
		acc2 := newCounter(c).h
		for i := range rb {
			acc2.AddAll(rb[i])
		}
		if ab := acc2.GetBytes(); !bytes.Equal(ab, full) {
			return pbt.Fail("AddAll of %d rebuilt counters into an empty one differs from the counter of the union: %s", k, diffAt(ab, full))
		}
		if ac := acc2.Cardinality(); ac != card {
			return pbt.Fail("after AddAll of %d rebuilt counters: Cardinality() = %d, the union's counter estimates %d", k, ac, card)
		}
		for i := range rb {
			if now := rb[i].GetBytes(); !bytes.Equal(now, snaps[i]) {
				return pbt.Fail("merging changed rebuilt operand %d: %s", i, diffAt(now, snaps[i]))
			}
		}
		// a counter merged into itself is itself (union with the same set), and the call returns
		if ret, pv := pbt.WithTimeout(20*time.Second, func() { acc.AddAll(acc) }); !ret {
			return pbt.Fail("a.AddAll(a) did not return within 20 s")
		} else if pv != nil {
			return pbt.Fail("a.AddAll(a) panicked: %v", pv)
		}
		if ab := acc.GetBytes(); !bytes.Equal(ab, full) {
			return pbt.Fail("a.AddAll(a) changed a: %s", diffAt(ab, full))
		}
		if ac := acc.Cardinality(); ac != card {
			return pbt.Fail("after a.AddAll(a): Cardinality() = %d, before %d", ac, card)
		}
	}

	raw := n > 5*m/2
	classes := []string{fmt.Sprintf("p=%d", c.P), "load=" + loadClass(n, m), fmt.Sprintf("parts=%d", c.Parts)}
	if c.Wide {
		classes = append(classes, "OfferLong")
	} else {
		classes = append(classes, "Offer")
	}
	if raw {
		classes = append(classes, "raw-estimator")
	}
	if overlap {
		classes = append(classes, "overlapping-merge")
	}
	if !c.Fair {
		classes = append(classes, "structured-or-crafted-items(no accuracy claim)")
	} else if n <= m/20 && allowedError(n, m) > math.Max(2, 0.06*float64(n)) {
		classes = append(classes, "small-set-allowance-widened-by-collision-bound")
	}
	key := append([]byte{byte(c.P), b2b(c.Wide)}, full...)
	key = binary.BigEndian.AppendUint64(key, uint64(n))
	return &pbt.Result{NT: raw || overlap, Classes: classes, Key: key}
}

func b2b(b bool) byte {
	if b {
		return 1
	}
	return 0
}

func trunc(b []byte) []byte {
	if len(b) > 96 {
		return b[:96]
	}
	return b
}

func loadClass(n, m int) string {
	switch {
	case n == 0:
		return "0"
	case n <= m/20:
		return "<=m/20"
	case n <= m:
		return "<=m"
	case n <= 5*m/2:
		return "<=2.5m"
	case n <= 4*m:
		return "<=4m"
	}
	return "<=6m+"
}

// ---- generator ----

func drawCase(t *rapid.T) Case {
	p := rapid.IntRange(4, 16).Draw(t, "p")
	m := 1 << uint(p)
	c := Case{P: p, Fair: true}
	c.Wide = rapid.Bool().Draw(t, "wide")
	if p == 10 {
		c.Default = rapid.Bool().Draw(t, "default")
	}
	// target number of items: 0 … 6m with the interesting load factors over-represented
	// (rapid's integer generators favour the low end of a range, so a position in 33 steps plus a small
	// jitter is drawn instead of one number from a range that is up to 400 000 wide)
	between := func(lo, hi int) int {
		n := lo + (hi-lo)*rapid.IntRange(0, 32).Draw(t, "pos")/32 + rapid.IntRange(0, 3).Draw(t, "jitter")
		if n > hi {
			n = hi
		}
		return n
	}
	var n int
	switch rapid.IntRange(0, 11).Draw(t, "load") {
	case 0:
		n = rapid.IntRange(0, 3).Draw(t, "n")
	case 1:
		n = between(0, m/20+1)
	case 2:
		n = between(m/8, m)
	case 3:
		n = between(m, 2*m)
	case 4, 5:
		n = between(2*m, 3*m) // hand-over from linear counting to the raw estimator
	case 6, 7:
		n = between(3*m, 5*m)
	case 8, 9:
		n = between(5*m, 6*m)
	default:
		n = between(0, 6*m)
	}
	nseg := rapid.IntRange(1, 3).Draw(t, "nseg")
	left := n
	for i := 0; i < nseg; i++ {
		cnt := left
		if i < nseg-1 {
			cnt = rapid.IntRange(0, left).Draw(t, "cnt")
		}
		left -= cnt
		s := Seg{N: cnt}
		switch rapid.IntRange(0, 5).Draw(t, "segkind") {
		case 0, 1:
			s.K, s.A = "rnd", rapid.Uint64().Draw(t, "seed")
		case 2, 3:
			s.K, s.S = "seq", 1
			s.A = rapid.OneOf(rapid.Uint64Range(0, 1000), rapid.Uint64(), rapid.Just(uint64(math.MaxUint32-5)), rapid.Just(uint64(math.MaxUint64-5))).Draw(t, "start")
		case 4: // high-bit-only / strided items (structured: no accuracy claim)
			s.K = "seq"
			s.S = uint64(1) << uint(rapid.IntRange(1, 63).Draw(t, "shift"))
			s.A = rapid.Uint64Range(0, 3).Draw(t, "start")
			c.Fair = false
		default: // an earlier segment once more: duplicates inside the multiset
			if len(c.Segs) > 0 {
				s = c.Segs[rapid.IntRange(0, len(c.Segs)-1).Draw(t, "again")]
				if s.K != "list" && s.N > cnt {
					s.N = cnt
				}
			} else {
				s.K, s.A = "rnd", rapid.Uint64().Draw(t, "seed")
			}
		}
		c.Segs = append(c.Segs, s)
	}
	// crafted hashes: chosen register and chosen rank (incl. the all-zero remainder = largest rank)
	if rapid.IntRange(0, 3).Draw(t, "crafted") == 0 {
		c.Fair = false
		k := rapid.IntRange(1, 24).Draw(t, "ncraft")
		fewRegs := rapid.Bool().Draw(t, "fewregs")
		s := Seg{K: "list"}
		for i := 0; i < k; i++ {
			var idx uint32
			if fewRegs {
				idx = rapid.SampledFrom([]uint32{0, 1, 5, 6, uint32(m) - 1, uint32(m) - 2, uint32(m) / 2}).Draw(t, "idx")
			} else {
				idx = uint32(rapid.IntRange(0, m-1).Draw(t, "idx"))
			}
			width := uint(32 - p)
			var rest uint32
			switch rapid.IntRange(0, 4).Draw(t, "restkind") {
			case 0:
				rest = 0 // all remaining bits zero: rank 32-p+1
			case 1:
				rest = 1 // rank 32-p
			case 2:
				rest = uint32(1)<<width - 1 // rank 1
			case 3:
				rest = uint32(1) << uint(rapid.IntRange(0, int(width)-1).Draw(t, "bit")) // exact rank
			default:
				rest = rapid.Uint32().Draw(t, "rest") & (uint32(1)<<width - 1)
			}
			target := idx<<width | rest
			hi := uint32(0)
			if c.Wide {
				hi = rapid.Uint32().Draw(t, "hi")
			}
			s.L = append(s.L, craftItem(target, hi))
		}
		pos := rapid.IntRange(0, len(c.Segs)).Draw(t, "craftpos")
		c.Segs = append(c.Segs[:pos], append([]Seg{s}, c.Segs[pos:]...)...)
	}
	c.Shuf = rapid.Uint64().Draw(t, "shuf")
	c.DupPc = rapid.SampledFrom([]int{0, 5, 30, 90}).Draw(t, "dup")
	c.Parts = rapid.IntRange(1, 5).Draw(t, "parts")
	c.OvlPc = rapid.SampledFrom([]int{0, 10, 50, 100}).Draw(t, "ovl")
	c.Extra = rapid.IntRange(0, 20).Draw(t, "extra")
	return c
}

var specHLL = pbt.Register(pbt.Spec[Case]{
	Prop: "C14", Name: "hll-model",
	Rule:  "precision 4..16, OfferLong/Offer, multisets of 0..6m items (random, sequential, strided/high-bit-only, repeated segments, items crafted to a chosen register and rank), a reordered run with 0-90% repetitions, a split into 1-5 (optionally overlapping) parts that are merged; golib vs an independent register model for Offer's result, bytes, estimate, merge laws, rebuild; non-trivial = more than 2.5m distinct items (raw-estimator range) or a merge of overlapping parts; distinct by (p, path, register state, number of distinct items)",
	Quick: 4000, Thorough: 150000,
	Draw: drawCase,
	Run:  runCase,
})

func TestHLL(t *testing.T) {
	defer func() {
		pbt.Extra("hll-model", "worst_error_over_allowed_envelope", worstEnvelope)
		pbt.Extra("hll-model", "worst_error_in_sigmas_raw_range", worstSigma)
		pbt.Extra("hll-model", "worst_error_in_sigmas_at", worstSigmaAt)
	}()
	specHLL.Check(t)
}

// Boundary catalogue: every precision with empty, single-item, exactly-threshold and 6m sets, and the
// saturated-small-counter region (all registers non-empty while the raw estimate is still <= 2.5m).
func TestHLLBoundaries(t *testing.T) {
	for p := 4; p <= 16; p++ {
		m := 1 << uint(p)
		sizes := []int{0, 1, 2, m / 20, m/20 + 1, m, 5 * m / 2, 5*m/2 + 1, 3 * m, 6 * m}
		if !pbt.Thorough() && p > 13 {
			sizes = []int{0, 1, m / 20, 3 * m}
		}
		for i, n := range sizes {
			for _, wide := range []bool{false, true} {
				specHLL.RunCase(t, Case{P: p, Wide: wide, Fair: true, Segs: []Seg{{K: "seq", A: uint64(1 + 1000*i), S: 1, N: n}},
					Shuf: uint64(p*100 + i), DupPc: 30, Parts: 3, OvlPc: 50, Extra: 5})
			}
		}
		// largest rank in every register of a small block, then the smallest: the register keeps the maximum
		var l []uint64
		for idx := uint32(0); idx < 13 && idx < uint32(m); idx++ {
			l = append(l, craftItem(idx<<(32-uint(p)), 0), craftItem(idx<<(32-uint(p))|(uint32(1)<<(32-uint(p))-1), 0))
		}
		l = append(l, craftItem(0xffffffff, 0), craftItem(0xffffffff<<(32-uint(p)), 0))
		specHLL.RunCase(t, Case{P: p, Wide: false, Segs: []Seg{{K: "list", L: l}}, Shuf: 7, DupPc: 90, Parts: 2, OvlPc: 100, Extra: 3})
		specHLL.RunCase(t, Case{P: p, Wide: true, Segs: []Seg{{K: "list", L: l}}, Shuf: 8, DupPc: 5, Parts: 4, OvlPc: 10, Extra: 3})
	}
	// p=4 and p=5 around the coupon-collector point: many different item sets of 2.2m..3.5m items
	for p := 4; p <= 6; p++ {
		m := 1 << uint(p)
		for s := 0; s < 150; s++ {
			specHLL.RunCase(t, Case{P: p, Wide: s%2 == 0, Fair: true, Segs: []Seg{{K: "seq", A: uint64(s) * 100000, S: 1, N: 2*m + s%(2*m)}},
				Shuf: uint64(s), DupPc: 0, Parts: 1})
		}
	}
}

// ---- RegisterSet against an array model -------------------------------------------

type ROp struct {
	K   string   `json:"k"` // "upd" UpdateIfGreater, "set" Set, "get" Get, "merge" Merge(other built from the pairs)
	Pos int      `json:"pos,omitempty"`
	Val int      `json:"val,omitempty"`
	O   [][2]int `json:"o,omitempty"` // (position, value) pairs set in the other register set
}

type RCase struct {
	Log2 int   `json:"log2"` // Count = 2^Log2
	Ops  []ROp `json:"ops"`
}

func runRegs(c RCase) *pbt.Result {
	count := 1 << uint(c.Log2)
	rs := hll.NewRegisterSet(count)
	model := make([]uint8, count)
	wantWords := (count + 5) / 6
	if rs.Count != count || rs.Size != wantWords || len(rs.M) != wantWords {
		return pbt.Fail("NewRegisterSet(%d): Count=%d Size=%d len(M)=%d, want %d registers in %d words", count, rs.Count, rs.Size, len(rs.M), count, wantWords)
	}
	kinds := map[string]bool{}
	for i, op := range c.Ops {
		kinds[op.K] = true
		switch op.K {
		case "upd":
			want := uint8(op.Val) > model[op.Pos]
			if want {
				model[op.Pos] = uint8(op.Val)
			}
			if got := rs.UpdateIfGreater(uint32(op.Pos), uint32(op.Val)); got != want {
				return pbt.Fail("op %d: UpdateIfGreater(%d, %d) = %v, model %v", i, op.Pos, op.Val, got, want)
			}
		case "set":
			model[op.Pos] = uint8(op.Val)
			rs.Set(uint32(op.Pos), uint32(op.Val))
		case "get":
			if got := rs.Get(op.Pos); got != uint32(model[op.Pos]) {
				return pbt.Fail("op %d: Get(%d) = %d, model %d", i, op.Pos, got, model[op.Pos])
			}
		case "merge":
			other := hll.NewRegisterSet(count)
			om := make([]uint8, count)
			for _, pv := range op.O {
				other.Set(uint32(pv[0]), uint32(pv[1]))
				om[pv[0]] = uint8(pv[1])
			}
			before := append([]uint32(nil), other.M...)
			rs.Merge(other)
			for j := range model {
				if om[j] > model[j] {
					model[j] = om[j]
				}
			}
			for j := range before {
				if other.M[j] != before[j] {
					return pbt.Fail("op %d: Merge changed its argument (word %d)", i, j)
				}
			}
		default:
			panic("unknown op " + op.K)
		}
		// neighbours must be untouched: compare the whole packed state
		want := packRegs(model)
		for j := range want {
			if rs.M[j] != want[j] {
				return pbt.Fail("after op %d (%s pos=%d val=%d): word %d = %#08x, model %#08x", i, op.K, op.Pos, op.Val, j, rs.M[j], want[j])
			}
		}
	}
	for j := range model {
		if got := rs.Get(j); got != uint32(model[j]) {
			return pbt.Fail("final Get(%d) = %d, model %d", j, got, model[j])
		}
	}
	key := make([]byte, 0, 4*wantWords+1)
	key = append(key, byte(c.Log2))
	for _, w := range rs.M {
		key = binary.BigEndian.AppendUint32(key, w)
	}
	return &pbt.Result{NT: len(kinds) >= 2 && len(c.Ops) >= 3, Classes: []string{fmt.Sprintf("log2=%d", c.Log2)}, Key: key}
}

var specRegs = pbt.Register(pbt.Spec[RCase]{
	Prop: "C14", Name: "registerset-model",
	Rule:  "register sets of 2^0..2^10 registers (power-of-two counts, as the counter creates them) driven by 1-40 UpdateIfGreater/Set/Get/Merge operations with 5-bit values 0..31 at positions biased to word borders, against a []uint8 model and its six-per-word packing after every operation; non-trivial = >= 3 operations of >= 2 kinds; distinct by final state",
	Quick: 20000, Thorough: 200000,
	Draw: func(t *rapid.T) RCase {
		c := RCase{Log2: rapid.IntRange(0, 10).Draw(t, "log2")}
		count := 1 << uint(c.Log2)
		pos := rapid.Custom(func(t *rapid.T) int {
			if rapid.Bool().Draw(t, "edge") {
				e := rapid.SampledFrom([]int{0, 1, 4, 5, 6, 7, 11, 12, count - 1, count - 2, count/6*6 - 1, count / 6 * 6}).Draw(t, "e")
				if e >= 0 && e < count {
					return e
				}
			}
			return rapid.IntRange(0, count-1).Draw(t, "pos")
		})
		val := rapid.OneOf(rapid.IntRange(0, 31), rapid.SampledFrom([]int{0, 1, 15, 16, 30, 31}))
		n := rapid.IntRange(1, 40).Draw(t, "nops")
		for i := 0; i < n; i++ {
			op := ROp{K: rapid.SampledFrom([]string{"upd", "upd", "upd", "set", "get", "merge"}).Draw(t, "k")}
			switch op.K {
			case "merge":
				k := rapid.IntRange(0, 12).Draw(t, "npairs")
				for j := 0; j < k; j++ {
					op.O = append(op.O, [2]int{pos.Draw(t, "p"), val.Draw(t, "v")})
				}
			case "get":
				op.Pos = pos.Draw(t, "p")
			default:
				op.Pos, op.Val = pos.Draw(t, "p"), val.Draw(t, "v")
			}
			c.Ops = append(c.Ops, op)
		}
		return c
	},
	Run: runRegs,
})

func TestRegisterSet(t *testing.T) { specRegs.Check(t) }
