package c20

// Values that share structure, and comparisons running at the same time.
//
// A value object may be an element of several containers at once (the same tag map put into two packs, a list holding one
// map twice), and values are compared by whoever holds them, from any goroutine: comparisons only read. "Total" means
// every such call returns. The containers are built around the SAME golib objects (not copies), so a comparison meets
// an object it is already inside of; afterwards 2-4 goroutines evaluate the same ordered pairs at once and must see the
// results the single goroutine saw.

import (
	"fmt"
	"sync"
	"testing"
	"time"

	"github.com/whatap/golib/lang/value"
	"pgregory.net/rapid"
	"verif/gval"
	"verif/pbt"
	"verif/ref"
)

type SharedCase struct {
	A    *ref.V `json:"a"`
	B    *ref.V `json:"b"`
	Wrap int    `json:"wrap"` // 0: map {k: a, j: b}; 1: list [a, b, a]; 2: map {k: {k: a}, j: a}; 3: int map {1: a, 2: b}
	Gs   int    `json:"gs"`   // goroutines of the concurrent phase
}

func wrapShared(kind int, a, b value.Value) value.Value {
	switch kind {
	case 0:
		m := value.NewMapValue()
		m.Put("k", a)
		m.Put("j", b)
		return m
	case 1:
		l := value.NewListValue(nil)
		l.Add(a)
		l.Add(b)
		l.Add(a)
		return l
	case 2:
		in := value.NewMapValue()
		in.Put("k", a)
		m := value.NewMapValue()
		m.Put("k", in)
		m.Put("j", a)
		return m
	}
	m := value.NewIntMapValue()
	m.Put(1, a)
	m.Put(2, b)
	return m
}

func runShared(c SharedCase) *pbt.Result {
	ga, gb := gval.ToGolib(c.A), gval.ToGolib(c.B)
	gc := wrapShared(c.Wrap, ga, gb)                                                       // holds ga and gb themselves
	gd := wrapShared(c.Wrap, gval.ToGolib(ref.Clone(c.A)), gval.ToGolib(ref.Clone(c.B))) // same content, separate objects
	vals := []value.Value{ga, gb, gc, gd}
	names := []string{"a", "b", "w(a,b)", "copy of w(a,b)"}
	type res struct {
		eq  bool
		cmp int
	}
	evalAll := func() (out [4][4]res, failure string) {
		for i := range vals {
			for j := range vals {
				i, j := i, j
				returned, pv := pbt.WithTimeout(30*time.Second, func() {
					out[i][j].eq = vals[i].Equals(vals[j])
					out[i][j].cmp = vals[i].CompareTo(vals[j])
				})
				if !returned {
					return out, fmt.Sprintf("%s.Equals / CompareTo(%s) did not return within 30 s (w holds the objects a and b themselves)", names[i], names[j])
				}
				if pv != nil {
					return out, fmt.Sprintf("%s.Equals / CompareTo(%s) panics: %v", names[i], names[j], pv)
				}
			}
		}
		return out, ""
	}
	seq, failure := evalAll()
	if failure != "" {
		return pbt.Fail("%s", failure)
	}
	if !seq[2][3].eq || !seq[3][2].eq || seq[2][3].cmp != 0 || seq[3][2].cmp != 0 {
		return pbt.Fail("a container built around the objects a and b and one built around copies of them are not equal: Equals %v / %v, CompareTo %d / %d", seq[2][3].eq, seq[3][2].eq, seq[2][3].cmp, seq[3][2].cmp)
	}
	for i := range vals {
		if !seq[i][i].eq || seq[i][i].cmp != 0 {
			return pbt.Fail("%s is not equal to itself", names[i])
		}
		for j := range vals {
			if seq[i][j].eq != seq[j][i].eq || sign(seq[i][j].cmp) != -sign(seq[j][i].cmp) {
				return pbt.Fail("%s vs %s: Equals %v / %v, CompareTo %d / %d (not symmetric / sign-reversing)", names[i], names[j], seq[i][j].eq, seq[j][i].eq, seq[i][j].cmp, seq[j][i].cmp)
			}
		}
	}
	// the same comparisons from several goroutines at once, each starting at another pair and half of them walking backwards
	var wg sync.WaitGroup
	fails := make([]string, c.Gs)
	returned, _ := pbt.WithTimeout(60*time.Second, func() {
		for g := 0; g < c.Gs; g++ {
			wg.Add(1)
			go func(g int) {
				defer wg.Done()
				defer func() {
					if p := recover(); p != nil {
						fails[g] = fmt.Sprintf("a comparison panics while other goroutines compare the same values: %v", p)
					}
				}()
				for round := 0; round < 30; round++ {
					for k := 0; k < 16; k++ {
						idx := (k + g*5) % 16
						if g%2 == 1 {
							idx = 15 - idx
						}
						i, j := idx/4, idx%4
						if eq, cmp := vals[i].Equals(vals[j]), vals[i].CompareTo(vals[j]); eq != seq[i][j].eq || sign(cmp) != sign(seq[i][j].cmp) {
							fails[g] = fmt.Sprintf("%s vs %s: Equals=%v CompareTo=%d while other goroutines compare the same values; alone it was Equals=%v CompareTo=%d", names[i], names[j], eq, cmp, seq[i][j].eq, seq[i][j].cmp)
							return
						}
					}
				}
			}(g)
		}
		wg.Wait()
	})
	if !returned {
		return pbt.Fail("%d goroutines comparing a, b, w(a,b) and its copy with each other (both directions at the same time) did not finish within 60 s: comparisons block each other", c.Gs)
	}
	for _, f := range fails {
		if f != "" {
			return pbt.Fail("%s", f)
		}
	}
	container := c.A.T == ref.TMap || c.A.T == ref.TIntMap || c.A.T == ref.TList
	return &pbt.Result{NT: container, Classes: []string{fmt.Sprintf("wrap=%d", c.Wrap), fmt.Sprintf("a-is-container=%v", container)}}
}

var specShared = pbt.Register(pbt.Spec[SharedCase]{
	Prop: "C20", Name: "shared-structure-and-concurrent-comparisons",
	Rule:  "values a, b (any type, a mostly a map or list) and a container w built around the objects a and b themselves (map {k: a, j: b}, list [a, b, a], map {k: {k: a}, j: a}, int map) plus the same container built around copies; all 16 ordered pairs: Equals and CompareTo return (30 s) without panic, w equals its copy, reflexive, symmetric, sign-reversing; then 2-4 goroutines evaluate the 16 pairs 30 times each in different orders at the same time: same results as alone, all return (60 s); non-trivial = a is a container; distinct by case",
	Quick: 1500, Thorough: 60000,
	Draw: func(t *rapid.T) SharedCase {
		a := gval.Value(opts).Draw(t, "a")
		if a.T != ref.TMap && a.T != ref.TIntMap && a.T != ref.TList && rapid.IntRange(0, 3).Draw(t, "wrap-a") > 0 {
			a = &ref.V{T: ref.TMap, K: []string{"78", "79"}, L: []*ref.V{a, gval.Value(opts).Draw(t, "a2")}}
		}
		return SharedCase{A: a, B: drawRelated(t, a, "b"), Wrap: rapid.IntRange(0, 3).Draw(t, "wrap"), Gs: rapid.IntRange(2, 4).Draw(t, "gs")}
	},
	Run: runShared,
})

func TestSharedStructure(t *testing.T) { specShared.Check(t) }
