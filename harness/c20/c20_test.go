// C20 Value equality and comparison are total and lawful.
package c20

import (
	"encoding/hex"
	"fmt"
	"testing"

	wio "github.com/whatap/golib/io"
	"github.com/whatap/golib/lang/value"
	"github.com/whatap/golib/util/hash"
	"pgregory.net/rapid"
	"verif/gen"
	"verif/gval"
	"verif/pbt"
	"verif/ref"
)

func TestMain(m *testing.M)   { pbt.Main(m, "C20") }
func TestReplay(t *testing.T) { pbt.Replay(t) }

type Triple struct {
	A *ref.V `json:"a"`
	B *ref.V `json:"b"`
	C *ref.V `json:"c"`
	// Nil[i]: value i is built with nil payloads wherever its blob / array payloads are empty (NewBlobValue(nil),
	// NewIntArray(nil) ...), at any depth: "nil versus empty payloads"
	Nil [3]bool `json:"nil,omitempty"`
}

// nilEmpty replaces every empty blob / array payload inside g by a nil one.
func nilEmpty(g value.Value) {
	switch x := g.(type) {
	case *value.BlobValue:
		if len(x.Val) == 0 {
			x.Val = nil
		}
	case *value.IntArray:
		if len(x.Val) == 0 {
			x.Val = nil
		}
	case *value.LongArray:
		if len(x.Val) == 0 {
			x.Val = nil
		}
	case *value.FloatArray:
		if len(x.Val) == 0 {
			x.Val = nil
		}
	case *value.TextArray:
		if len(x.Val) == 0 {
			x.Val = nil
		}
	case *value.ListValue:
		for i := 0; i < x.Size(); i++ {
			nilEmpty(x.Get(i))
		}
	case *value.MapValue:
		for en := x.Keys(); en.HasMoreElements(); {
			nilEmpty(x.Get(en.NextString()))
		}
	case *value.IntMapValue:
		for en := x.Keys(); en.HasMoreElements(); {
			nilEmpty(x.Get(en.NextInt()))
		}
	}
}

var opts = gval.Opts{MaxDepth: 3, MaxWidth: 4, NoNaN: true, OddIP: true}

// mutate returns a value "near" v: one scalar changed, entries reordered, a key
// replaced, an element's type changed, a summary's count changed…
func mutate(t *rapid.T, v *ref.V, depth int) *ref.V {
	c := ref.Clone(v)
	if len(c.L) > 0 && depth < 3 && rapid.IntRange(0, 2).Draw(t, "descend") == 0 {
		i := rapid.IntRange(0, len(c.L)-1).Draw(t, "child")
		c.L[i] = mutate(t, c.L[i], depth+1)
		return c
	}
	switch c.T {
	case ref.TNull:
		return gval.DrawOfType(t, opts, ref.TBool, 1, false)
	case ref.TBool:
		c.I ^= 1
	case ref.TDecimal, ref.TLong:
		c.I = rapid.OneOf(rapid.Just(c.I+1), rapid.Just(c.I-1), rapid.Just(-c.I), gen.Int64()).Draw(t, "newint")
	case ref.TInt, ref.TTextHash:
		c.I = int64(int32(rapid.OneOf(rapid.Just(c.I+1), rapid.Just(c.I-1), gen.Int64()).Draw(t, "newint")))
	case ref.TFloat, ref.TDouble:
		return gval.DrawOfType(t, opts, c.T, 1, false)
	case ref.TDSum, ref.TLSum:
		k := rapid.IntRange(0, 3).Draw(t, "sumfield") // sum, count, min, max
		if k == 1 || c.T == ref.TLSum {
			c.N[k] += int64(rapid.IntRange(1, 3).Draw(t, "delta"))
			if k == 1 {
				c.N[1] = int64(int32(c.N[1]))
			}
		} else {
			n := gval.DrawOfType(t, opts, ref.TDSum, 1, false)
			c.N[k] = n.N[k]
		}
	case ref.TText, ref.TBlob:
		b, _ := hex.DecodeString(c.S)
		switch rapid.IntRange(0, 3).Draw(t, "strmut") {
		case 0:
			b = append(b, byte(rapid.IntRange(0, 255).Draw(t, "app")))
		case 1:
			if len(b) > 0 {
				b = b[:len(b)-1]
			} else {
				b = []byte{0}
			}
		case 2:
			if len(b) > 0 {
				b[rapid.IntRange(0, len(b)-1).Draw(t, "at")] ^= byte(rapid.IntRange(1, 255).Draw(t, "xor"))
			} else {
				b = []byte{0xff}
			}
		default:
			return gval.DrawOfType(t, opts, c.T, 1, false)
		}
		c.S = hex.EncodeToString(b)
	case ref.TIP4:
		b, _ := hex.DecodeString(c.S)
		if len(b) != 4 {
			return gval.DrawOfType(t, opts, c.T, 1, false)
		}
		b[rapid.IntRange(0, 3).Draw(t, "octet")] ^= byte(rapid.IntRange(1, 255).Draw(t, "xor"))
		c.S = hex.EncodeToString(b)
	case ref.TIntArr, ref.TLongArr, ref.TFloatArr:
		switch {
		case len(c.N) == 0 || rapid.IntRange(0, 3).Draw(t, "arrmut") == 0:
			e := gval.DrawOfType(t, opts, c.T, 1, false)
			c.N = append(c.N, append(e.N, 7)[0])
			if c.T == ref.TFloatArr {
				c.N[len(c.N)-1] = 0x3f800000
			}
		case rapid.Bool().Draw(t, "drop"):
			c.N = c.N[:len(c.N)-1]
		default:
			i := rapid.IntRange(0, len(c.N)-1).Draw(t, "at")
			if c.T == ref.TFloatArr {
				c.N[i] = int64(uint32(c.N[i]) ^ 0x00400000&0x7fffffff)
				if f := c.N[i] & 0x7f800000; f == 0x7f800000 { // keep NaN out
					c.N[i] = 0x40000000
				}
			} else {
				c.N[i]++
				if c.T == ref.TIntArr {
					c.N[i] = int64(int32(c.N[i]))
				}
			}
		}
	case ref.TTextArr:
		if len(c.TA) == 0 || rapid.Bool().Draw(t, "app") {
			c.TA = append(c.TA, hex.EncodeToString([]byte("z")))
		} else {
			i := rapid.IntRange(0, len(c.TA)-1).Draw(t, "at")
			c.TA[i] = c.TA[i] + "00"
		}
	case ref.TList:
		switch {
		case len(c.L) >= 2 && rapid.Bool().Draw(t, "swap"):
			c.L[0], c.L[len(c.L)-1] = c.L[len(c.L)-1], c.L[0]
		case len(c.L) >= 1 && rapid.Bool().Draw(t, "retype"):
			i := rapid.IntRange(0, len(c.L)-1).Draw(t, "at")
			c.L[i] = gval.Value(gval.Opts{MaxDepth: 1, MaxWidth: 2, NoNaN: true}).Draw(t, "elem")
		default:
			c.L = append(c.L, gval.Value(gval.Opts{MaxDepth: 1, MaxWidth: 2, NoNaN: true}).Draw(t, "elem"))
		}
	case ref.TMap, ref.TIntMap:
		n := len(c.L)
		k := rapid.IntRange(0, 4).Draw(t, "mapmut")
		switch {
		case n >= 2 && k == 0: // same entries, different insertion order
			rot := rapid.IntRange(1, n-1).Draw(t, "rot")
			c.L = append(c.L[rot:], c.L[:rot]...)
			if c.T == ref.TMap {
				c.K = append(c.K[rot:], c.K[:rot]...)
			} else {
				c.KI = append(c.KI[rot:], c.KI[:rot]...)
			}
		case n >= 1 && k == 1: // same size, one key replaced by a fresh one
			i := rapid.IntRange(0, n-1).Draw(t, "at")
			if c.T == ref.TMap {
				c.K[i] = hex.EncodeToString([]byte(fmt.Sprintf("fresh%d", rapid.IntRange(0, 9).Draw(t, "fk"))))
			} else {
				c.KI[i] = int32(900000 + rapid.IntRange(0, 9).Draw(t, "fk"))
			}
		case n >= 2 && k == 2: // values of two keys exchanged
			c.L[0], c.L[1] = c.L[1], c.L[0]
		case n >= 1 && k == 3: // one value replaced (possibly by another type)
			i := rapid.IntRange(0, n-1).Draw(t, "at")
			c.L[i] = gval.Value(gval.Opts{MaxDepth: 1, MaxWidth: 2, NoNaN: true}).Draw(t, "elem")
		default: // one more entry
			if c.T == ref.TMap {
				c.K = append(c.K, hex.EncodeToString([]byte(fmt.Sprintf("extra%d", n))))
			} else {
				c.KI = append(c.KI, int32(800000+n))
			}
			c.L = append(c.L, gval.Value(gval.Opts{MaxDepth: 1, MaxWidth: 2, NoNaN: true}).Draw(t, "elem"))
		}
	}
	return c
}

// counterpart returns the value of ANOTHER type that stands for the same thing as base, if there is one: the text a
// hash value is the hash of / the hash of a text, the number of another integer width. nil: none.
func counterpart(base *ref.V) *ref.V {
	switch base.T {
	case ref.TText:
		return &ref.V{T: ref.TTextHash, I: int64(hash.HashStr(string(gen.UnHex(base.S))))}
	case ref.TDecimal:
		if base.I == int64(int32(base.I)) {
			return &ref.V{T: ref.TInt, I: base.I}
		}
		return &ref.V{T: ref.TLong, I: base.I}
	case ref.TInt, ref.TLong:
		return &ref.V{T: ref.TDecimal, I: base.I}
	case ref.TList:
		// element-wise
		out := &ref.V{T: ref.TList}
		any := false
		for _, e := range base.L {
			if cp := counterpart(e); cp != nil {
				out.L = append(out.L, cp)
				any = true
			} else {
				out.L = append(out.L, ref.Clone(e))
			}
		}
		if any {
			return out
		}
	}
	return nil
}

func drawRelated(t *rapid.T, base *ref.V, label string) *ref.V {
	switch rapid.IntRange(0, 10).Draw(t, label) {
	case 10:
		if cp := counterpart(base); cp != nil {
			return cp
		}
		return mutate(t, base, 0)
	case 0:
		return ref.Clone(base)
	case 1, 2, 3, 4:
		return mutate(t, base, 0)
	case 5:
		return mutate(t, mutate(t, base, 0), 0)
	case 6, 7:
		return gval.DrawOfType(t, opts, base.T, 3, true) // same type, independent
	default:
		return gval.Value(opts).Draw(t, "other") // any type
	}
}

func sign(x int) int {
	switch {
	case x < 0:
		return -1
	case x > 0:
		return 1
	}
	return 0
}

func isScalar(t byte) bool {
	switch t {
	case ref.TNull, ref.TBool, ref.TDecimal, ref.TInt, ref.TLong, ref.TFloat, ref.TDouble, ref.TText, ref.TTextHash, ref.TBlob, ref.TIP4, ref.TDSum, ref.TLSum:
		return true
	}
	return false
}

func roundTrip(g value.Value) value.Value {
	o := wio.NewDataOutputX()
	value.WriteValue(o, g)
	// the receiver decodes out of its receive buffer and then uses the buffer for the next message: the decoded value
	// is the caller's from then on (seed C20-s24)
	buf := append([]byte(nil), o.ToByteArray()...)
	v := value.ReadValue(wio.NewDataInputX(buf))
	for i := range buf {
		buf[i] = ^buf[i]
	}
	return v
}

type call struct {
	eq  bool
	cmp int
}

// laws evaluates all nine ordered pairs of three values and checks every law of the statement on them.
func laws(gs [3]value.Value, names [3]string, copies [3]value.Value) (r [3][3]call, err error) {
	var ty [3]byte
	for i := range gs {
		ty[i] = gs[i].GetValueType()
	}
	// totality: every ordered pair, no panic
	for i := 0; i < 3; i++ {
		for j := 0; j < 3; j++ {
			var perr interface{}
			func() {
				defer func() { perr = recover() }()
				r[i][j].eq = gs[i].Equals(gs[j])
			}()
			if perr != nil {
				return r, fmt.Errorf("%s.Equals(%s) panics: %v", names[i], names[j], perr)
			}
			func() {
				defer func() { perr = recover() }()
				r[i][j].cmp = gs[i].CompareTo(gs[j])
			}()
			if perr != nil {
				return r, fmt.Errorf("%s.CompareTo(%s) panics: %v", names[i], names[j], perr)
			}
		}
	}
	for i := 0; i < 3; i++ {
		if !r[i][i].eq || r[i][i].cmp != 0 {
			return r, fmt.Errorf("%s is not equal to itself: Equals=%v CompareTo=%d", names[i], r[i][i].eq, r[i][i].cmp)
		}
		cl := copies[i]
		if cl != nil && (!gs[i].Equals(cl) || !cl.Equals(gs[i]) || gs[i].CompareTo(cl) != 0) {
			return r, fmt.Errorf("%s is not equal to an identical copy of itself", names[i])
		}
		d := roundTrip(gs[i])
		if !gs[i].Equals(d) || !d.Equals(gs[i]) {
			return r, fmt.Errorf("%s does not equal the result of decoding its encoding", names[i])
		}
		if gs[i].CompareTo(d) != 0 || d.CompareTo(gs[i]) != 0 {
			return r, fmt.Errorf("%s compares non-zero with the result of decoding its encoding", names[i])
		}
	}
	for i := 0; i < 3; i++ {
		for j := 0; j < 3; j++ {
			if r[i][j].eq != r[j][i].eq {
				return r, fmt.Errorf("Equals is not symmetric: %s.Equals(%s)=%v but %s.Equals(%s)=%v", names[i], names[j], r[i][j].eq, names[j], names[i], r[j][i].eq)
			}
			if sign(r[i][j].cmp) != -sign(r[j][i].cmp) {
				return r, fmt.Errorf("CompareTo does not reverse sign: %s.CompareTo(%s)=%d, %s.CompareTo(%s)=%d", names[i], names[j], r[i][j].cmp, names[j], names[i], r[j][i].cmp)
			}
			if ty[i] != ty[j] {
				want := sign(int(ty[i]) - int(ty[j]))
				if sign(r[i][j].cmp) != want {
					return r, fmt.Errorf("values of different types are not ordered by type: type %d vs type %d gives CompareTo=%d", ty[i], ty[j], r[i][j].cmp)
				}
				if r[i][j].eq {
					return r, fmt.Errorf("values of different types %d and %d are Equal", ty[i], ty[j])
				}
			} else if isScalar(ty[i]) {
				if (r[i][j].cmp == 0) != r[i][j].eq {
					return r, fmt.Errorf("scalar type %d: CompareTo=%d but Equals=%v", ty[i], r[i][j].cmp, r[i][j].eq)
				}
			}
			for k := 0; k < 3; k++ {
				if r[i][j].eq && r[j][k].eq && !r[i][k].eq {
					return r, fmt.Errorf("Equals is not transitive: %s=%s and %s=%s but not %s=%s", names[i], names[j], names[j], names[k], names[i], names[k])
				}
				if r[i][j].cmp <= 0 && r[j][k].cmp <= 0 && r[i][k].cmp > 0 {
					return r, fmt.Errorf("CompareTo is not transitive: %s<=%s (%d) and %s<=%s (%d) but %s>%s (%d)", names[i], names[j], r[i][j].cmp, names[j], names[k], r[j][k].cmp, names[i], names[k], r[i][k].cmp)
				}
			}
		}
	}
	return r, nil
}

func run(c Triple) *pbt.Result {
	vs := []*ref.V{c.A, c.B, c.C}
	gs := [3]value.Value{gval.ToGolib(c.A), gval.ToGolib(c.B), gval.ToGolib(c.C)}
	copies := [3]value.Value{gval.ToGolib(ref.Clone(c.A)), gval.ToGolib(ref.Clone(c.B)), gval.ToGolib(ref.Clone(c.C))}
	for i := range gs {
		if c.Nil[i] {
			nilEmpty(gs[i]) // the copy keeps its empty, non-nil payloads: the two are the same value
		}
	}
	r, err := laws(gs, [3]string{"a", "b", "c"}, copies)
	if err != nil {
		return pbt.Fail("%v", err)
	}
	// classification
	nt := false
	var classes []string
	for _, p := range [][2]int{{0, 1}, {1, 2}, {0, 2}} {
		a, b := vs[p[0]], vs[p[1]]
		switch {
		case a.T != b.T:
			nt = true
			classes = append(classes, "pair=mixed-type")
		case (a.T == ref.TMap || a.T == ref.TIntMap || a.T == ref.TList) && len(a.L) == len(b.L) && len(a.L) > 0:
			nt = true
			if r[p[0]][p[1]].eq {
				classes = append(classes, "pair=container-same-size-equal")
			} else {
				classes = append(classes, "pair=container-same-size-different")
			}
		case a.T == b.T:
			if r[p[0]][p[1]].eq {
				classes = append(classes, "pair=same-type-equal")
			} else {
				classes = append(classes, "pair=same-type-different")
			}
		}
	}
	key := append(append(ref.ValueBytes(c.A), ref.ValueBytes(c.B)...), ref.ValueBytes(c.C)...)
	return &pbt.Result{NT: nt, Classes: classes, Key: key}
}

var specLaws = pbt.Register(pbt.Spec[Triple]{
	Prop: "C20", Name: "equality-comparison-laws", Parallel: 8,
	Rule:  "triples (a, b, c) of values: a drawn over all 20 types (NaN excluded), b and c derived from a / b by cloning, one or two local mutations (scalar changed, summary count changed, entries reordered, key replaced, values exchanged, element retyped, entry added), an independent value of the same type, or any value; in a quarter of the triples some of the three are built with nil instead of empty blob / array payloads; all 9 ordered pairs evaluated; oracle = no panic, reflexive (also vs a copy and vs decode(encode)), symmetric, transitive Equals; sign-reversing and transitive CompareTo; zero iff equal for scalars; mixed types ordered by type code; non-trivial = the triple contains a mixed-type pair or two same-type containers of equal non-zero size; distinct by the three encodings",
	Quick: 20000, Thorough: 2000000,
	Draw: func(t *rapid.T) Triple {
		a := gval.Value(opts).Draw(t, "a")
		b := drawRelated(t, a, "bkind")
		base := b
		if rapid.Bool().Draw(t, "cfromA") {
			base = a
		}
		tr := Triple{A: a, B: b, C: drawRelated(t, base, "ckind")}
		if rapid.IntRange(0, 3).Draw(t, "nilpayloads") == 0 {
			for i := range tr.Nil {
				tr.Nil[i] = rapid.Bool().Draw(t, "nil")
			}
		}
		return tr
	},
	Run: run,
})

func TestLaws(t *testing.T) { specLaws.Check(t) }

// Mixed-type matrix: every ordered pair of the 20 type codes with simple representatives (exhaustive over type pairs).
func TestTypeMatrix(t *testing.T) {
	rep := func(ty byte) *ref.V {
		switch ty {
		case ref.TDSum, ref.TLSum:
			return &ref.V{T: ty, N: []int64{0, 0, 0, 0}}
		case ref.TIP4:
			return &ref.V{T: ty, S: "01020304"}
		}
		return &ref.V{T: ty}
	}
	for _, a := range ref.AllTypes {
		for _, b := range ref.AllTypes {
			for _, c := range []byte{ref.TNull, ref.TIntMap, ref.TDouble} {
				specLaws.RunCase(t, Triple{A: rep(a), B: rep(b), C: rep(c)})
			}
		}
	}
	// an IPv4 value constructed from a 16-byte (IPv6) address, or from no address at all, against every type (seed C20-s22)
	for _, odd := range []string{"20010db8000000000000000000000001", "", "7f0000"} {
		for _, b := range ref.AllTypes {
			specLaws.RunCase(t, Triple{A: &ref.V{T: ref.TIP4, S: odd}, B: rep(b), C: &ref.V{T: ref.TBlob, S: odd}})
			specLaws.RunCase(t, Triple{A: rep(b), B: &ref.V{T: ref.TIP4, S: odd}, C: &ref.V{T: ref.TIP4, S: "00000000"}})
		}
	}
}

// Hand-written seeds of the shapes the design phase found broken (kept as permanent regression cases).
func TestRegressionShapes(t *testing.T) {
	hx := func(s string) string { return hex.EncodeToString([]byte(s)) }
	m := func(kv ...interface{}) *ref.V {
		v := &ref.V{T: ref.TMap}
		for i := 0; i < len(kv); i += 2 {
			v.K = append(v.K, hx(kv[i].(string)))
			v.L = append(v.L, ref.DecV(int64(kv[i+1].(int))))
		}
		return v
	}
	im := func(kv ...int) *ref.V {
		v := &ref.V{T: ref.TIntMap}
		for i := 0; i < len(kv); i += 2 {
			v.KI = append(v.KI, int32(kv[i]))
			v.L = append(v.L, ref.DecV(int64(kv[i+1])))
		}
		return v
	}
	cases := []Triple{
		{A: m("a", 1), B: m("b", 1), C: m("a", 1)},
		{A: m("x", 1, "y", 2), B: m("y", 1, "x", 2), C: m("y", 2, "x", 1)},
		{A: im(1, 1), B: im(2, 1), C: im(1, 2)},
		{A: im(1, 1, 2, 2), B: im(2, 1, 1, 2), C: im(2, 2, 1, 1)},
		{A: &ref.V{T: ref.TBool, I: 1}, B: ref.DecV(5), C: &ref.V{T: ref.TNull}},
		{A: &ref.V{T: ref.TLSum, N: []int64{1, 1, 0, 0}}, B: &ref.V{T: ref.TLSum, N: []int64{1, 2, 0, 0}}, C: &ref.V{T: ref.TLSum, N: []int64{1, 3, 0, 0}}},
		{A: &ref.V{T: ref.TDSum, N: []int64{0x3ff0000000000000, 1, 0, 0}}, B: &ref.V{T: ref.TDSum, N: []int64{0x3ff0000000000000, 2, 0, 0}}, C: &ref.V{T: ref.TDSum, N: []int64{0x3ff0000000000000, 2, 5, 0}}},
		{A: &ref.V{T: ref.TIntMap}, B: &ref.V{T: ref.TMap}, C: &ref.V{T: ref.TNull}},
	}
	for _, c := range cases {
		specLaws.RunCase(t, c)
	}
}
