package c20

// laws-after-mutation: the containers are mutable, and the laws are stated for
// all values, not only for values that have never been compared before. A
// container is compared (so that whatever Equals/CompareTo may remember about it
// is remembered), then changed in place through its public mutators, then the
// laws are evaluated again on (changed container, decode(encode(changed
// container)), an unrelated value).

import (
	"fmt"
	"testing"

	wio "github.com/whatap/golib/io"
	"github.com/whatap/golib/lang/value"
	"pgregory.net/rapid"
	"verif/gval"
	"verif/pbt"
	"verif/ref"
)

// MOp is one in-place mutation of the container (or of a container nested in it).
type MOp struct {
	Kind  string `json:"kind"`            // put | putall | read | clear | newlist | add | set
	Inner int    `json:"inner,omitempty"` // > 0: apply to the (Inner-1)th nested container instead of the top one, when there is one
	Sel   int    `json:"sel"`             // which key / index: below the current size an existing one, otherwise a new one
	Val   *ref.V `json:"val,omitempty"`   // element for put / add / set
	Other *ref.V `json:"other,omitempty"` // container of the same type for putall / read
}

type MutCase struct {
	A   *ref.V `json:"a"` // map, int map or list
	B   *ref.V `json:"b"`
	Ops []MOp  `json:"ops"`
}

func mapKeys(m *value.MapValue) []string {
	var ks []string
	for en := m.Keys(); en.HasMoreElements(); {
		ks = append(ks, en.NextString())
	}
	return ks
}

func intMapKeys(m *value.IntMapValue) []int32 {
	var ks []int32
	for en := m.Keys(); en.HasMoreElements(); {
		ks = append(ks, en.NextInt())
	}
	return ks
}

// nested returns the containers directly inside g, in iteration order.
func nested(g value.Value) []value.Value {
	var out []value.Value
	add := func(v value.Value) {
		switch v.(type) {
		case *value.MapValue, *value.IntMapValue, *value.ListValue:
			out = append(out, v)
		}
	}
	switch c := g.(type) {
	case *value.MapValue:
		for _, k := range mapKeys(c) {
			add(c.Get(k))
		}
	case *value.IntMapValue:
		for _, k := range intMapKeys(c) {
			add(c.Get(k))
		}
	case *value.ListValue:
		for i := 0; i < c.Size(); i++ {
			add(c.Get(i))
		}
	}
	return out
}

func encodeBody(g value.Value) *wio.DataInputX {
	o := wio.NewDataOutputX()
	g.Write(o)
	return wio.NewDataInputX(append([]byte(nil), o.ToByteArray()...))
}

// apply performs op on g; it reports what it did ("" = the operation does not exist for this container).
func apply(g value.Value, op MOp) string {
	val := func() value.Value {
		if op.Val == nil {
			return value.NewNullValue()
		}
		return gval.ToGolib(op.Val)
	}
	switch c := g.(type) {
	case *value.MapValue:
		ks := mapKeys(c)
		key := fmt.Sprintf("new%d", op.Sel)
		if op.Sel < len(ks) {
			key = ks[op.Sel]
		}
		switch op.Kind {
		case "put":
			c.Put(key, val())
			if op.Sel < len(ks) {
				return "map.put-existing"
			}
			return "map.put-new"
		case "putall":
			if o, ok := gval.ToGolib(orEmpty(op.Other, ref.TMap)).(*value.MapValue); ok {
				c.PutAll(o)
				return "map.putall"
			}
		case "read":
			if o, ok := gval.ToGolib(orEmpty(op.Other, ref.TMap)).(*value.MapValue); ok {
				c.Read(encodeBody(o))
				return "map.read-into-used"
			}
		case "clear":
			c.Clear()
			return "map.clear"
		case "newlist":
			c.NewList(key).AddLong(int64(op.Sel))
			return "map.newlist"
		}
	case *value.IntMapValue:
		ks := intMapKeys(c)
		key := int32(900000 + op.Sel)
		if op.Sel < len(ks) {
			key = ks[op.Sel]
		}
		switch op.Kind {
		case "put":
			c.Put(key, val())
			if op.Sel < len(ks) {
				return "intmap.put-existing"
			}
			return "intmap.put-new"
		case "read":
			if o, ok := gval.ToGolib(orEmpty(op.Other, ref.TIntMap)).(*value.IntMapValue); ok {
				c.Read(encodeBody(o))
				return "intmap.read-into-used"
			}
		case "clear":
			c.Clear()
			return "intmap.clear"
		case "newlist":
			c.NewList(key).AddLong(int64(op.Sel))
			return "intmap.newlist"
		}
	case *value.ListValue:
		switch op.Kind {
		case "add", "put":
			c.Add(val())
			return "list.add"
		case "set":
			if c.Size() > 0 {
				c.Set(op.Sel%c.Size(), val())
				return "list.set"
			}
		case "read":
			if o, ok := gval.ToGolib(orEmpty(op.Other, ref.TList)).(*value.ListValue); ok && o.Size() > 0 {
				c.Read(encodeBody(o))
				return "list.read-into-used"
			}
		case "clear":
			c.Clear()
			return "list.clear"
		}
	}
	return ""
}

func orEmpty(v *ref.V, ty byte) *ref.V {
	if v == nil || v.T != ty {
		return &ref.V{T: ty}
	}
	return v
}

func runMut(c MutCase) *pbt.Result {
	ga, gb := gval.ToGolib(c.A), gval.ToGolib(c.B)
	names := [3]string{"a", "decode(encode(a))", "b"}
	check := func(when string) error {
		_, err := laws([3]value.Value{ga, roundTrip(ga), gb}, names, [3]value.Value{})
		if err != nil {
			return fmt.Errorf("%s: %v", when, err)
		}
		return nil
	}
	if err := check("before any change"); err != nil {
		return pbt.Fail("%v", err)
	}
	classes := map[string]bool{}
	applied := 0
	history := ""
	for i, op := range c.Ops {
		target := ga
		if op.Inner > 0 {
			if ns := nested(ga); len(ns) > 0 {
				target = ns[(op.Inner-1)%len(ns)]
				classes["nested-container-changed"] = true
			}
		}
		var what string
		var perr interface{}
		func() {
			defer func() { perr = recover() }()
			what = apply(target, op)
		}()
		if perr != nil {
			// the mutators are not what the statement is about; a panic inside them is not judged here
			classes["mutator-panicked(not asserted)"] = true
			continue
		}
		if what == "" {
			continue
		}
		applied++
		classes[what] = true
		history += " " + what
		if err := check(fmt.Sprintf("after change %d (%s ) of a container that had been compared before", i, history)); err != nil {
			return pbt.Fail("%v", err)
		}
	}
	var cl []string
	for k := range classes {
		cl = append(cl, k)
	}
	sortStrings(cl)
	key := append(ref.ValueBytes(c.A), ref.ValueBytes(c.B)...)
	for _, op := range c.Ops {
		key = append(key, []byte(fmt.Sprintf("|%s/%d/%d", op.Kind, op.Inner, op.Sel))...)
		if op.Val != nil {
			key = append(key, ref.ValueBytes(op.Val)...)
		}
		if op.Other != nil {
			key = append(key, ref.ValueBytes(op.Other)...)
		}
	}
	return &pbt.Result{NT: applied > 0, Classes: cl, Key: key}
}

func sortStrings(s []string) {
	for i := 1; i < len(s); i++ {
		for j := i; j > 0 && s[j] < s[j-1]; j-- {
			s[j], s[j-1] = s[j-1], s[j]
		}
	}
}

var containerTypes = []byte{ref.TMap, ref.TMap, ref.TIntMap, ref.TList}

func drawMut(t *rapid.T) MutCase {
	ty := rapid.SampledFrom(containerTypes).Draw(t, "type")
	a := gval.DrawOfType(t, opts, ty, 3, true)
	c := MutCase{A: a, B: drawRelated(t, a, "bkind")}
	kinds := map[byte][]string{
		ref.TMap:    {"put", "put", "putall", "putall", "read", "clear", "newlist"},
		ref.TIntMap: {"put", "put", "read", "read", "clear", "newlist"},
		ref.TList:   {"add", "add", "set", "read", "clear"},
	}
	n := rapid.IntRange(1, 4).Draw(t, "nops")
	for i := 0; i < n; i++ {
		op := MOp{Kind: rapid.SampledFrom(kinds[ty]).Draw(t, "kind"), Sel: rapid.IntRange(0, 6).Draw(t, "sel")}
		if rapid.IntRange(0, 4).Draw(t, "inner?") == 0 {
			op.Inner = rapid.IntRange(1, 3).Draw(t, "inner")
			op.Kind = rapid.SampledFrom([]string{"put", "read", "clear", "set"}).Draw(t, "innerkind")
		}
		switch op.Kind {
		case "put", "add", "set":
			op.Val = gval.Value(gval.Opts{MaxDepth: 2, MaxWidth: 3, NoNaN: true}).Draw(t, "val")
		case "putall", "read":
			oty := ty
			if op.Inner > 0 {
				oty = rapid.SampledFrom(containerTypes).Draw(t, "otype")
			}
			// often the other operand of the comparison: afterwards both have the same key set
			if oty == c.B.T && rapid.IntRange(0, 2).Draw(t, "otherIsB") == 0 {
				op.Other = ref.Clone(c.B)
			} else {
				op.Other = gval.DrawOfType(t, gval.Opts{MaxDepth: 2, MaxWidth: 4, NoNaN: true}, oty, 2, true)
			}
		}
		c.Ops = append(c.Ops, op)
	}
	return c
}

var specMut = pbt.Register(pbt.Spec[MutCase]{
	Prop: "C20", Name: "laws-after-mutation", Parallel: 8,
	Rule:  "a map, int map or list a (depth <= 3) and a related value b are compared in all directions; then 1-4 in-place changes are applied to a (or, one time in five, to a container nested in it) through the public mutators Put (existing / new key), PutAll, Read into the used object, Clear, NewList, Add, Set; after every change all laws of the statement are evaluated on the triple (a, decode(encode(a)), b): no panic, reflexive, symmetric, transitive Equals, a equal to and comparing zero with its decoded encoding, sign-reversing and transitive CompareTo, type order; non-trivial = at least one change was applied; distinct by the encodings of a, b and the operations",
	Quick: 6000, Thorough: 600000,
	Draw: drawMut, Run: runMut,
})

func TestLawsAfterMutation(t *testing.T) { specMut.Check(t) }
