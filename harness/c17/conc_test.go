package c17

import (
	"fmt"
	"os"
	"path/filepath"
	"strconv"
	"strings"
	"sync"
	"testing"

	"github.com/whatap/golib/logger/logfile"
	"pgregory.net/rapid"
	"verif/pbt"
)

// CMsg is one call of a goroutine: method, index of the goroutine-private id, filler length.
type CMsg struct {
	API  string `json:"api"`
	ID   int    `json:"id"`
	Tail int    `json:"tail"`
}

type ConcCase struct {
	Level    int      `json:"level"`    // 0..3
	Interval int      `json:"interval"` // 0 = no rate limit, otherwise seconds (>= 3600: far longer than the run)
	Workers  [][]CMsg `json:"workers"`
	// Loggers > 1: that many logger objects with the same home, id and object name (a logger re-created after a
	// reconfiguration, a second component of the process): they all append to the one file; goroutine g uses logger g mod Loggers
	Loggers int `json:"loggers,omitempty"`
}

// workerKey is the limiter id of goroutine g's k-th private id: exactly 10 bytes, disjoint between goroutines.
func workerKey(g, k int) string { return fmt.Sprintf("g%d-id-%04d", g, k) }

func runConc(c ConcCase) *pbt.Result {
	home, err := newHome("conc")
	if err != nil {
		panic(err)
	}
	defer os.RemoveAll(home)
	clk := &vclock{}
	defer clk.reset()
	clk.set(base2k + 9000*dayMs + 12*3600000) // noon: the (frozen-delta) clock stays far from a date change
	nl := c.Loggers
	if nl < 1 {
		nl = 1
	}
	var ls []*logfile.FileLogger
	for i := 0; i < nl; i++ {
		l := logfile.NewNoRunForVerif(logfile.WithHomePath(home), logfile.WithOnameLogID("boot", "wt"), logfile.WithLevel(c.Level))
		defer l.CloseForVerif()
		l.ApplyConfig(mapConf{"log_level": []string{"debug", "info", "warn", "error"}[c.Level], "_log_interval": strconv.Itoa(c.Interval)})
		ls = append(ls, l)
	}

	// per-goroutine model: level gate, then "first accepted line per id" when the limiter is on
	type exp struct{ mark, text string }
	expected := make([][]exp, len(c.Workers))
	absent := map[string]string{}
	texts := make([][]string, len(c.Workers))
	var wg sync.WaitGroup
	start := make(chan struct{})
	for g, msgs := range c.Workers {
		texts[g] = make([]string, len(msgs))
		wg.Add(1)
		go func(g int, msgs []CMsg) {
			defer wg.Done()
			<-start
			for i, m := range msgs {
				texts[g][i] = callAPI(ls[g%len(ls)], m.API, workerKey(g, m.ID), marker(fmt.Sprintf("%d.", g), i), filler(m.Tail, g*31+i))
			}
		}(g, msgs)
	}
	close(start)
	wg.Wait()
	total, supp := 0, 0
	for g, msgs := range c.Workers {
		seen := map[int]bool{}
		for i, m := range msgs {
			mk := marker(fmt.Sprintf("%d.", g), i)
			lvl, limited, _ := apiInfo(m.API)
			if c.Level > lvl {
				absent[mk] = "below the configured level"
				continue
			}
			if limited && c.Interval > 0 {
				if seen[m.ID] {
					absent[mk] = fmt.Sprintf("repeats id %q of the same goroutine within the interval", workerKey(g, m.ID))
					supp++
					continue
				}
				seen[m.ID] = true
			}
			expected[g] = append(expected[g], exp{mk, texts[g][i]})
			total++
		}
	}

	des, err := os.ReadDir(logsDir(home))
	if err != nil {
		panic(err)
	}
	want := fmt.Sprintf("wt-boot-%s.log", ymd(9000))
	if len(des) != 1 || des[0].Name() != want {
		var n []string
		for _, d := range des {
			n = append(n, d.Name())
		}
		return pbt.Fail("logs/ holds %v; expected exactly %s", n, want)
	}
	b, err := os.ReadFile(filepath.Join(logsDir(home), want))
	if err != nil {
		panic(err)
	}
	fs, err := scanMarkers(want, b)
	if err != nil {
		return &pbt.Result{Err: err}
	}
	next := make([]int, len(c.Workers))
	for _, f := range fs {
		if why, ok := absent[f.mark]; ok {
			return pbt.Fail("line %q was written although it %s", clip(f.line), why)
		}
		body := strings.TrimSuffix(strings.TrimPrefix(f.mark, "{m"), "}")
		g, _ := strconv.Atoi(body[:strings.Index(body, ".")])
		if g < 0 || g >= len(expected) || next[g] >= len(expected[g]) {
			return pbt.Fail("unexpected extra line %q", clip(f.line))
		}
		e := expected[g][next[g]]
		if f.mark != e.mark {
			return pbt.Fail("goroutine %d: line with marker %s found where its next accepted line %s is due (lost, duplicated or reordered)", g, f.mark, e.mark)
		}
		if !strings.Contains(f.line, e.text) {
			return pbt.Fail("goroutine %d: line of %s is not whole: %q does not contain %q", g, e.mark, clip(f.line), clip(e.text))
		}
		next[g]++
	}
	for g := range expected {
		if next[g] != len(expected[g]) {
			return pbt.Fail("goroutine %d: %d of its %d accepted lines are in the file; first missing %s", g, next[g], len(expected[g]), expected[g][next[g]].mark)
		}
	}
	cl := []string{"goroutines=" + strconv.Itoa(len(c.Workers)), "lines=" + bucket(total/10) + "x10", "logger-objects-on-the-file=" + strconv.Itoa(nl)}
	if supp > 0 {
		cl = append(cl, "with-suppression")
	}
	return &pbt.Result{NT: len(c.Workers) >= 2 && total >= 2*len(c.Workers), Classes: cl}
}

func drawConc(t *rapid.T) ConcCase {
	c := ConcCase{Level: rapid.IntRange(0, 3).Draw(t, "level"), Interval: rapid.SampledFrom([]int{0, 0, 3600, 86400}).Draw(t, "interval")}
	ng := rapid.IntRange(2, 6).Draw(t, "goroutines")
	long := rapid.IntRange(0, 3).Draw(t, "long") == 0
	for g := 0; g < ng; g++ {
		n := rapid.IntRange(1, 60).Draw(t, "n")
		var ms []CMsg
		for i := 0; i < n; i++ {
			tail := rapid.IntRange(0, 120)
			if long {
				tail = rapid.OneOf(rapid.IntRange(0, 120), rapid.IntRange(3000, 9000))
			}
			ms = append(ms, CMsg{API: rapid.SampledFrom(apis).Draw(t, "api"), ID: rapid.IntRange(0, 20).Draw(t, "id"), Tail: tail.Draw(t, "tail")})
		}
		c.Workers = append(c.Workers, ms)
	}
	c.Loggers = rapid.SampledFrom([]int{1, 1, 2, 3}).Draw(t, "loggers")
	return c
}

var specConc = pbt.Register(pbt.Spec[ConcCase]{
	Prop: "C17", Name: "concurrent-logging",
	Rule:  "2-6 goroutines, spread over 1-3 logger objects that share home, id and object name (one file), each issue 1-60 calls over the 12 logging methods with goroutine-private 10-byte ids (<= 21 per goroutine), messages up to 9 KB, generated level and interval (0 or >= 1 h), virtual clock delta fixed at noon; oracle (sound for any schedule): the single log file holds exactly the lines the level gate and the per-id limiter accept, each whole and alone on its line, each goroutine's lines in its call order; non-trivial = >= 2 goroutines with on average >= 2 accepted lines; distinct by case",
	Quick: 400, Thorough: 12000,
	Draw: drawConc,
	Run:  runConc,
})

func TestConcurrentLogging(t *testing.T) { specConc.Check(t) }

// ---- rotation when the new day's file cannot be opened at first ---------------------------------------------------

type RotFaultCase struct {
	ID      int `json:"id"`
	Oname   int `json:"oname"`
	Blocked int `json:"blocked"` // cycles that run while the new file's name is taken by a directory
	After   int `json:"after"`   // cycles that run after the obstacle is gone, before the judged line is logged
	Days    int `json:"days"`    // the date moves on by this many days
}

func runRotFault(c RotFaultCase) *pbt.Result {
	home, err := newHome("rotf")
	if err != nil {
		panic(err)
	}
	defer os.RemoveAll(home)
	clk := &vclock{}
	defer clk.reset()
	day := int64(9100)
	clk.set(base2k + day*dayMs + 12*3600000)
	id, on := logIDs[c.ID%len(logIDs)], onames[c.Oname%len(onames)]
	l := logfile.NewNoRunForVerif(logfile.WithHomePath(home), logfile.WithOnameLogID(on, id), logfile.WithLevel(0))
	defer l.CloseForVerif()
	name := func(d int64) string {
		if on == "" {
			return fmt.Sprintf("%s-%s.log", id, ymd(d))
		}
		return fmt.Sprintf("%s-%s-%s.log", id, on, ymd(d))
	}
	callAPI(l, "Println", "rotf-id-0001", marker("a", 0), "before the date changes")
	next := day + int64(c.Days)
	blocker := filepath.Join(logsDir(home), name(next))
	if err := os.Mkdir(blocker, 0o755); err != nil {
		panic(err)
	}
	clk.set(base2k + next*dayMs + 5000)
	for i := 0; i < c.Blocked; i++ {
		l.CycleForVerif()
		callAPI(l, "Println", fmt.Sprintf("rotf-id-1%03d", i), marker("b", i), "while the new file cannot be opened") // where this goes is not judged
	}
	if err := os.Remove(blocker); err != nil {
		panic(err)
	}
	for i := 0; i < c.After; i++ {
		clk.add(11000)
		l.CycleForVerif()
	}
	text := callAPI(l, "Println", "rotf-id-2000", marker("c", 0), "after the obstacle is gone")
	b, err := os.ReadFile(filepath.Join(logsDir(home), name(next)))
	if err != nil {
		return pbt.Fail("the date changed from %s to %s; the first %d cycles could not open %s (a directory had that name), the directory was removed and %d more cycles ran: the new day's file still does not exist (%v)", ymd(day), ymd(next), c.Blocked, name(next), c.After, err)
	}
	if !strings.Contains(string(b), text) {
		old, _ := os.ReadFile(filepath.Join(logsDir(home), name(day)))
		return pbt.Fail("the date changed to %s, %d cycles failed to open the new file, the obstacle was removed and %d more cycles ran: the line logged afterwards is not in %s (in the old day's file: %v)", ymd(next), c.Blocked, c.After, name(next), strings.Contains(string(old), text))
	}
	return &pbt.Result{NT: true, Classes: []string{fmt.Sprintf("blocked-cycles=%d", c.Blocked), fmt.Sprintf("cycles-after=%d", c.After)}}
}

var specRotFault = pbt.Register(pbt.Spec[RotFaultCase]{
	Prop: "C17", Name: "rotation-after-failed-open",
	Rule:  "the date moves on by 1-3 days while a directory occupies the name of the new day's log file; 1-3 cycles run (and fail to open it), the directory is removed, 1-3 further cycles run 11 s apart, then a line is logged: it must be in the new day's file; every case is non-trivial; distinct by case",
	Quick: 60, Thorough: 1500,
	Draw: func(t *rapid.T) RotFaultCase {
		return RotFaultCase{ID: rapid.IntRange(0, 5).Draw(t, "id"), Oname: rapid.IntRange(0, 5).Draw(t, "oname"), Blocked: rapid.IntRange(1, 3).Draw(t, "blocked"),
			After: rapid.IntRange(1, 3).Draw(t, "after"), Days: rapid.IntRange(1, 3).Draw(t, "days")}
	},
	Run: runRotFault,
})

func TestRotationAfterFailedOpen(t *testing.T) { specRotFault.Check(t) }
