package c17

import (
	"bytes"
	"fmt"
	"os"
	"path/filepath"
	"sort"
	"strconv"
	"strings"
	"time"
	"testing"

	"github.com/whatap/golib/logger/logfile"
	"pgregory.net/rapid"
	"verif/pbt"
)

// ---- case ------------------------------------------------------------------------------------------

var (
	logIDs   = []string{"wt", "whatap", "app-1"}
	onames   = []string{"boot", "agent1", "my-app", "node1.example.com", "10.0.0.7"} // object names are often host names or addresses
	prefixes = []string{"conn fail ", "conn fail:", "db timeout", "WA20301ABC", "disk full "} // exactly 10 bytes each: the limiter key of a message
	idKeys   = []string{"WA101", "WA102", "db timeout", "WA20301ABC", "a"}                    // explicit ids of Printf/Println (two coincide with message prefixes)
	badDates = []string{"2020010", "202001011", "snapshot", "2020010x", "20201399", "20200431", "20210229", "20200100", "20200001",
		"+2020101", "19991399", "00000000", "2020 101", "abcdefgh", "١٢٣٤"}
	litDates = []string{"19991231", "20000101", "20000102", "20991231", "21000101", "00010101", "99991231"}
)

// Op is one action of a history.
type Op struct {
	K string `json:"k"` // log | adv | cycle | conf | level | plant

	API  string `json:"api,omitempty"`  // log: method
	P    int    `json:"p,omitempty"`    // log: index of the 10-byte message prefix, or of the id for Printf/Println
	Tail int    `json:"tail,omitempty"` // log: length of the filler after the marker

	AK string `json:"ak,omitempty"` // adv: ms | days | midnight (to the next midnight + Ms) | interval (configured interval + Ms)
	Ms int64  `json:"ms,omitempty"`

	Conf map[string]string `json:"conf,omitempty"` // conf: keys handed to ApplyConfig (absent key = built-in default)
	Lv   int               `json:"lv,omitempty"`   // level: SetLevel argument

	PK   string `json:"pk,omitempty"`   // plant: own | bad | plain | foreign | dir
	On   int    `json:"on,omitempty"`   // plant: object-name variant (0 = the logger's own, -1 = none)
	Var  int    `json:"var,omitempty"`  // plant: variant of the kind (index into its pattern list)
	Age  string `json:"age,omitempty"`  // plant: off (today+Off days) | keep (today-(keepDays+Off)) | lit (literal date)
	Off  int    `json:"off,omitempty"`  //
	Size int    `json:"size,omitempty"` // plant: content length
}

type HistCase struct {
	ID      int   `json:"id"`    // index into logIDs
	Oname   int   `json:"oname"` // index into onames
	Level   int   `json:"level"` // initial level 0..3 (WithLevel)
	Day     int64 `json:"day"`   // start day (days since 2000-01-01 UTC)
	MsOfDay int64 `json:"ms_of_day"`
	Ops     []Op  `json:"ops"`
	// Zone != 0: the process's local time zone (time.Local) is this many minutes east of UTC; the logger's days are UTC
	// days whatever the host says
	Zone int `json:"zone,omitempty"`
	// Stdout: the logger is created with the console echo on (WithStdout(true)): lines go to the file as always (the
	// process's standard output is pointed at the null device while the case runs)
	Stdout bool `json:"stdout,omitempty"`
}

// ---- model ------------------------------------------------------------------------------------------

type mfile struct {
	planted  []byte
	isDir    bool
	target   bool // the logger writes (wrote) into it: planted bytes must be a prefix
	dontCare bool // retention was disabled by configuration while the file was past keep-days: presence not asserted
}

type span struct{ lo, hi int64 }

type entry struct {
	n     int
	mark  string
	text  string
	files []string // files the line may be in
	maybe bool     // acceptance was ambiguous (clock bracket straddled the limiter threshold) or its file's fate is not asserted
	op    int
	api   string
}

type model struct {
	id, oname string
	nested    map[string][]byte // files planted below subdirectories of the logs directory (never the logger's to touch)
	level     int
	rotation  bool
	keep      int
	interval  int
	cur       string
	files     map[string]*mfile
	deleted   map[string]string // name -> why the model expects it gone
	altOK     map[string]bool
	last      map[string]span
	entries   []*entry
	absent    map[string]string // marker -> why it must not appear
	gone      map[string]bool   // markers whose file was pruned

	rotations, delTotal, keptTotal, suppressed, gated, ambiguous, accepted, hardPasses int
	ntRetention                                                                        bool
}

func (m *model) fileName(rotation bool, day int64) string {
	if rotation {
		return fmt.Sprintf("%s-%s-%s.log", m.id, m.oname, ymd(day))
	}
	return fmt.Sprintf("%s-%s.log", m.id, m.oname)
}

// datedOwn reports whether a name is "a dated file carrying the logger's own id prefix"
// and its day number: <id>-…-<yyyymmdd>.log (or <id>-<yyyymmdd>.log) with a real calendar date.
func (m *model) datedOwn(name string) (int64, bool) {
	if !strings.HasPrefix(name, m.id+"-") || !strings.HasSuffix(name, ".log") {
		return 0, false
	}
	stem := strings.TrimSuffix(name, ".log")
	k := strings.LastIndex(stem, "-")
	if k < 0 {
		return 0, false
	}
	return parseYmd(stem[k+1:])
}

func (m *model) touchTarget(name string) {
	f, ok := m.files[name]
	if !ok {
		f = &mfile{}
		m.files[name] = f
	}
	f.target = true
	delete(m.deleted, name)
}

// retention applies the statement's rule to the model at a cycle on day `today`.
func (m *model) retention(today int64) {
	hard := m.rotation && m.keep >= 1
	del, kept := 0, 0
	names := make([]string, 0, len(m.files))
	for n := range m.files {
		names = append(names, n)
	}
	sort.Strings(names)
	for _, name := range names {
		f := m.files[name]
		day, ok := m.datedOwn(name)
		if f.isDir || !ok || today-day <= int64(m.keep) {
			kept++
			continue
		}
		if hard {
			del++
			delete(m.files, name)
			m.deleted[name] = fmt.Sprintf("own prefix %q, date %s is %d days before the cycle's date %s, keep-days %d", m.id+"-", ymd(day), today-day, ymd(today), m.keep)
		} else {
			f.dontCare = true
		}
		// lines in a pruned (or not asserted) file
		var rest []*entry
		for _, e := range m.entries {
			idx := -1
			for i, fn := range e.files {
				if fn == name {
					idx = i
				}
			}
			if idx < 0 {
				rest = append(rest, e)
				continue
			}
			if hard {
				e.files = append(append([]string{}, e.files[:idx]...), e.files[idx+1:]...)
				if len(e.files) == 0 {
					m.gone[e.mark] = true
					continue
				}
			}
			e.maybe = true
			rest = append(rest, e)
		}
		m.entries = rest
	}
	if hard {
		m.hardPasses++
		m.delTotal += del
		m.keptTotal += kept
		if del >= 1 && kept >= 2 { // kept counts the current file too
			m.ntRetention = true
		}
	}
}

// verify compares <home>/logs with the model.
func (m *model) verify(home string, when string) error {
	dir := logsDir(home)
	des, err := os.ReadDir(dir)
	if err != nil {
		return fmt.Errorf("%s: cannot list %s: %v", when, dir, err)
	}
	actual := map[string]os.DirEntry{}
	for _, de := range des {
		actual[de.Name()] = de
	}
	for name := range actual {
		if _, ok := m.files[name]; ok || m.altOK[name] {
			continue
		}
		if why, ok := m.deleted[name]; ok {
			return fmt.Errorf("%s: retention did not remove %s (%s)", when, name, why)
		}
		return fmt.Errorf("%s: unexpected entry %q in the logs directory (current log file by the model: %s)", when, name, m.cur)
	}
	for rel, want := range m.nested {
		got, err := os.ReadFile(filepath.Join(dir, rel))
		if err != nil {
			return fmt.Errorf("%s: %s, a file in a subdirectory of the logs directory, is gone (%v): retention removes files of the logs directory itself, nothing below it", when, rel, err)
		}
		if !bytes.Equal(got, want) {
			return fmt.Errorf("%s: %s in a subdirectory of the logs directory was altered", when, rel)
		}
	}
	var all []found
	names := make([]string, 0, len(actual))
	for n := range actual {
		names = append(names, n)
	}
	sort.Strings(names)
	for name, f := range m.files {
		de, ok := actual[name]
		if !ok {
			if f.dontCare {
				continue
			}
			if name == m.cur {
				return fmt.Errorf("%s: the log file %s for the logger's id, object name and the date of the last cycle does not exist", when, name)
			}
			day, dated := m.datedOwn(name)
			why := "not a dated file with the logger's own prefix " + strconv.Quote(m.id+"-")
			if f.isDir {
				why = "a directory"
			} else if dated {
				why = fmt.Sprintf("dated %s, keep-days %d, rotation %v", ymd(day), m.keep, m.rotation)
			}
			return fmt.Errorf("%s: %s is gone from the logs directory although retention must keep it (%s)", when, name, why)
		}
		if f.isDir != de.IsDir() {
			return fmt.Errorf("%s: %s changed between file and directory", when, name)
		}
	}
	for _, name := range names {
		if actual[name].IsDir() {
			continue
		}
		b, err := os.ReadFile(filepath.Join(dir, name))
		if err != nil {
			return fmt.Errorf("%s: cannot read %s: %v", when, name, err)
		}
		if f, ok := m.files[name]; ok {
			if f.target {
				if !bytes.HasPrefix(b, f.planted) {
					return fmt.Errorf("%s: log file %s no longer starts with the %d bytes it held before the logger appended to it", when, name, len(f.planted))
				}
			} else if !bytes.Equal(b, f.planted) {
				return fmt.Errorf("%s: file %s, which the logger never had open, changed (%d bytes planted, %d bytes now)", when, name, len(f.planted), len(b))
			}
		}
		fs, err := scanMarkers(name, b)
		if err != nil {
			return fmt.Errorf("%s: %v", when, err)
		}
		all = append(all, fs...)
	}
	pos := map[string][]found{}
	lastN := map[string]int{}
	for _, f := range all {
		pos[f.mark] = append(pos[f.mark], f)
		n, _ := strconv.Atoi(strings.TrimSuffix(strings.TrimPrefix(f.mark, "{m"), "}"))
		if prev, ok := lastN[f.file]; ok && n <= prev {
			return fmt.Errorf("%s: in %s the line of call #%d comes after the line of call #%d (call order not kept)", when, f.file, n, prev)
		}
		lastN[f.file] = n
	}
	known := map[string]bool{}
	for _, e := range m.entries {
		known[e.mark] = true
		occ := pos[e.mark]
		switch {
		case len(occ) > 1:
			return fmt.Errorf("%s: the line of op %d (%s) appears %d times (%s and %s)", when, e.op, e.api, len(occ), occ[0].file, occ[1].file)
		case len(occ) == 0 && !e.maybe:
			return fmt.Errorf("%s: the line of op %d (%s, marker %s) was accepted by level and rate limit but is in no file under logs/ (expected in %v)", when, e.op, e.api, e.mark, e.files)
		case len(occ) == 1:
			ok := false
			for _, fn := range e.files {
				ok = ok || fn == occ[0].file
			}
			if !ok {
				return fmt.Errorf("%s: the line of op %d (%s, marker %s) is in %s; the log file for it is %v", when, e.op, e.api, e.mark, occ[0].file, e.files)
			}
			if !strings.Contains(occ[0].line, e.text) {
				return fmt.Errorf("%s: the line of op %d (%s) in %s is not whole: %q does not contain %q", when, e.op, e.api, occ[0].file, clip(occ[0].line), clip(e.text))
			}
		}
	}
	for mk, fs := range pos {
		if why, ok := m.absent[mk]; ok {
			return fmt.Errorf("%s: a line that must not be logged is in %s: %s; line %q", when, fs[0].file, why, clip(fs[0].line))
		}
		if !known[mk] && !m.gone[mk] {
			return fmt.Errorf("%s: %s holds a line with the unknown marker %s: %q", when, fs[0].file, mk, clip(fs[0].line))
		}
		if m.gone[mk] {
			return fmt.Errorf("%s: marker %s is in %s although its file was pruned", when, mk, fs[0].file)
		}
	}
	return nil
}

// ---- run ----------------------------------------------------------------------------------------------

func plantName(m *model, op Op, today int64) (name string, isDir bool) {
	on := m.oname
	switch {
	case op.On == 1:
		on = "other"
	case op.On == 2:
		on = "x-" + m.oname
	}
	var date string
	switch op.Age {
	case "keep":
		date = ymd(today - int64(m.keep) - int64(op.Off))
	case "lit":
		date = litDates[op.Var%len(litDates)]
	default:
		date = ymd(today + int64(op.Off))
	}
	id := m.id
	switch op.PK {
	case "own":
		if op.On < 0 {
			return fmt.Sprintf("%s-%s.log", id, date), false
		}
		return fmt.Sprintf("%s-%s-%s.log", id, on, date), false
	case "bad":
		return fmt.Sprintf("%s-%s-%s.log", id, on, badDates[op.Var%len(badDates)]), false
	case "plain":
		switch op.Var % 5 {
		case 0:
			return fmt.Sprintf("%s-%s.log", id, on), false
		case 1:
			return id + "-.log", false
		case 2:
			return fmt.Sprintf("%s-%s-%s", id, on, date), false // no extension
		case 3:
			return fmt.Sprintf("%s-%s%s.log", id, on, date), false // no dash before the date
		default:
			return id + ".log", false
		}
	case "foreign":
		switch op.Var % 6 {
		case 0:
			return fmt.Sprintf("%sx-%s-%s.log", id, on, date), false
		case 1:
			return fmt.Sprintf("x%s-%s-%s.log", id, on, date), false
		case 2:
			return fmt.Sprintf("%s%s-%s.log", id, on, date), false
		case 3:
			return fmt.Sprintf("%s_%s-%s.log", id, on, date), false
		case 4:
			return fmt.Sprintf("%s-%s-%s.log", strings.ToUpper(id), on, date), false
		default:
			return fmt.Sprintf("%s-%s-%s.log", id[:len(id)-1], on, date), false
		}
	case "dir":
		return fmt.Sprintf("%s-dir-%s.log", id, date), true
	}
	panic("unknown plant kind " + op.PK)
}

func runHist(c HistCase) *pbt.Result {
	home, err := newHome("hist")
	if err != nil {
		panic(err)
	}
	defer os.RemoveAll(home)
	if c.Zone != 0 {
		old := time.Local
		time.Local = time.FixedZone(fmt.Sprintf("UTC%+dmin", c.Zone), c.Zone*60)
		defer func() { time.Local = old }()
	}
	clk := &vclock{}
	defer clk.reset()
	clk.set(base2k + c.Day*dayMs + c.MsOfDay)
	nudge := func() {
		v := clk.now()
		if rem := dayMs - (v-base2k)%dayMs; rem <= guardMs {
			clk.add(rem)
		}
	}
	stall := func() *pbt.Result { return &pbt.Result{Classes: []string{"skipped:clock-bracket-straddles-midnight"}} }

	m := &model{id: logIDs[c.ID%len(logIDs)], oname: onames[c.Oname%len(onames)], level: c.Level, rotation: true, keep: 7, interval: 10,
		files: map[string]*mfile{}, deleted: map[string]string{}, altOK: map[string]bool{}, last: map[string]span{}, absent: map[string]string{}, gone: map[string]bool{}}

	nudge()
	lo := clk.now()
	lopts := []logfile.FileLoggerOption{logfile.WithHomePath(home), logfile.WithOnameLogID(m.oname, m.id), logfile.WithLevel(c.Level)}
	if c.Stdout {
		if null, err := os.OpenFile(os.DevNull, os.O_WRONLY, 0); err == nil {
			oldOut := os.Stdout
			os.Stdout = null
			defer func() { os.Stdout = oldOut; null.Close() }()
			lopts = append(lopts, logfile.WithStdout(true))
		}
	}
	l := logfile.NewNoRunForVerif(lopts...)
	defer l.CloseForVerif()
	hi := clk.now()
	if dayOf(lo) != dayOf(hi) {
		return stall()
	}
	m.cur = m.fileName(true, dayOf(lo))
	m.touchTarget(m.cur)
	if err := m.verify(home, "after creating the logger"); err != nil {
		return &pbt.Result{Err: err}
	}

	nlog := 0
	planted := map[string]int{}
	for i, op := range c.Ops {
		nudge()
		switch op.K {
		case "log":
			nlog++
			lvl, limited, byID := apiInfo(op.API)
			key := prefixes[op.P%len(prefixes)]
			if byID {
				key = idKeys[op.P%len(idKeys)]
				if op.P >= 1000 {
					key = fmt.Sprintf("WA9%05d", op.P) // one of many ids (a component that numbers its messages)
				}
			}
			mk := marker("", nlog)
			lo := clk.now()
			text := callAPI(l, op.API, key, mk, filler(op.Tail, nlog))
			hi := clk.now()
			if m.level > lvl {
				m.gated++
				m.absent[mk] = fmt.Sprintf("op %d %s is below the configured level %d", i, op.API, m.level)
				continue
			}
			maybe := false
			if limited && m.interval > 0 {
				thr := int64(m.interval) * 1000
				if last, ok := m.last[key]; ok {
					switch {
					case hi < last.lo+thr:
						m.suppressed++
						m.absent[mk] = fmt.Sprintf("op %d %s repeats id %q %d..%d ms after the last accepted line with that id, interval %d s", i, op.API, key, lo-last.hi, hi-last.lo, m.interval)
						continue
					case lo >= last.hi+thr:
						m.last[key] = span{lo, hi}
					default:
						maybe = true
						m.ambiguous++
						m.last[key] = span{last.lo, hi}
					}
				} else {
					m.last[key] = span{lo, hi}
				}
			}
			m.accepted++
			files := []string{m.cur}
			for _, d := range []int64{dayOf(lo), dayOf(hi)} {
				if alt := m.fileName(m.rotation, d); alt != files[0] && alt != files[len(files)-1] {
					files = append(files, alt)
					if _, ok := m.files[alt]; !ok {
						m.altOK[alt] = true
					}
				}
			}
			m.entries = append(m.entries, &entry{n: nlog, mark: mk, text: text, files: files, maybe: maybe, op: i, api: op.API})
		case "adv":
			var ms int64
			switch op.AK {
			case "days":
				ms = op.Ms * dayMs
			case "midnight":
				v := clk.now()
				ms = dayMs - (v-base2k)%dayMs + op.Ms
			case "interval":
				ms = int64(m.interval)*1000 + op.Ms
			default:
				ms = op.Ms
			}
			if ms < 0 {
				ms = 0
			}
			clk.add(ms)
		case "cycle":
			lo := clk.now()
			l.CycleForVerif()
			hi := clk.now()
			if dayOf(lo) != dayOf(hi) {
				return stall()
			}
			today := dayOf(lo)
			m.retention(today)
			next := m.fileName(m.rotation, today)
			if next != m.cur && m.rotation {
				m.rotations++
			}
			m.cur = next
			m.touchTarget(next)
			delete(m.altOK, next)
			if err := m.verify(home, fmt.Sprintf("after op %d (cycle on %s, keep-days %d, rotation %v)", i, ymd(today), m.keep, m.rotation)); err != nil {
				return &pbt.Result{Err: err}
			}
		case "conf":
			cf := mapConf(op.Conf)
			l.ApplyConfig(cf)
			m.rotation = cf.GetBoolean("log_rotation_enabled", true)
			m.keep = int(cf.GetInt("log_keep_days", 7))
			m.interval = int(cf.GetInt("_log_interval", 10))
			m.level = levelOf(cf.GetValueDef("log_level", "warn"))
		case "level":
			l.SetLevel(op.Lv)
			m.level = op.Lv
		case "plant":
			today := dayOf(clk.now())
			name, isDir := plantName(m, op, today)
			p := filepath.Join(logsDir(home), name)
			if _, ok := m.files[name]; ok || m.altOK[name] {
				continue
			}
			if _, err := os.Lstat(p); err == nil {
				continue
			}
			if isDir {
				if err := os.Mkdir(p, 0o755); err != nil {
					panic(err)
				}
				m.files[name] = &mfile{isDir: true}
				// what lies below the logs directory is not the logger's: an archived copy with the logger's own prefix
				// and a date far beyond keep-days, one and two levels down
				old := fmt.Sprintf("%s-%s-%s.log", m.id, m.oname, ymd(today-int64(m.keep)-40-int64(op.Off)))
				for _, rel := range []string{filepath.Join(name, old), filepath.Join(name, "q1", old)} {
					full := filepath.Join(logsDir(home), rel)
					if err := os.MkdirAll(filepath.Dir(full), 0o755); err != nil {
						panic(err)
					}
					content := []byte("archived " + rel + "\n")
					if err := os.WriteFile(full, content, 0o644); err != nil {
						panic(err)
					}
					if m.nested == nil {
						m.nested = map[string][]byte{}
					}
					m.nested[rel] = content
				}
			} else {
				content := []byte(filler(op.Size, i) + "\n")
				if err := os.WriteFile(p, content, 0o644); err != nil {
					panic(err)
				}
				m.files[name] = &mfile{planted: content}
			}
			delete(m.deleted, name)
			planted[op.PK]++
		default:
			panic("unknown op " + op.K)
		}
	}
	if err := m.verify(home, "at the end of the history"); err != nil {
		return &pbt.Result{Err: err}
	}
	classes := []string{"rotations=" + bucket(m.rotations), "pruned=" + bucket(m.delTotal), "suppressed=" + bucket(m.suppressed), "gated=" + bucket(m.gated), "accepted=" + bucket(m.accepted)}
	if m.ambiguous > 0 {
		classes = append(classes, "limiter-threshold-inside-clock-bracket")
	}
	for k := range planted {
		classes = append(classes, "planted:"+k)
	}
	if m.hardPasses > 0 {
		classes = append(classes, "retention-pass")
	}
	sort.Strings(classes)
	return &pbt.Result{NT: m.rotations >= 1 && m.ntRetention, Classes: classes}
}

// ---- generator ------------------------------------------------------------------------------------------

func drawConf(t *rapid.T) map[string]string {
	cf := map[string]string{}
	if rapid.IntRange(0, 9).Draw(t, "has_level") > 0 {
		cf["log_level"] = rapid.SampledFrom([]string{"error", "warn", "info", "debug", "debug", "info", "DEBUG", "Info", "ERROR", "Warn", "trace"}).Draw(t, "level") // names are matched without regard to case, unknown names mean warn
	}
	if rapid.IntRange(0, 9).Draw(t, "has_interval") > 0 {
		cf["_log_interval"] = strconv.Itoa(rapid.SampledFrom([]int{-1, 0, 0, 1, 1, 2, 5, 10, 60, 3600, 86400}).Draw(t, "interval"))
	}
	if rapid.IntRange(0, 9).Draw(t, "has_keep") > 0 {
		cf["log_keep_days"] = strconv.Itoa(rapid.SampledFrom([]int{-1, 0, 1, 1, 2, 2, 3, 3, 7, 30}).Draw(t, "keep"))
	}
	if rapid.IntRange(0, 9).Draw(t, "has_rotation") > 0 {
		cf["log_rotation_enabled"] = strconv.FormatBool(rapid.IntRange(0, 5).Draw(t, "rotation") > 0)
	}
	return cf
}

func drawPlant(t *rapid.T) Op {
	op := Op{K: "plant"}
	op.PK = rapid.SampledFrom([]string{"own", "own", "own", "own", "bad", "bad", "plain", "foreign", "foreign", "dir"}).Draw(t, "pk")
	op.On = rapid.SampledFrom([]int{0, 0, 1, 2, -1}).Draw(t, "on")
	op.Var = rapid.IntRange(0, 29).Draw(t, "var")
	op.Age = rapid.SampledFrom([]string{"off", "off", "keep", "keep", "keep", "lit"}).Draw(t, "age")
	switch op.Age {
	case "off":
		op.Off = rapid.OneOf(rapid.IntRange(-12, 2), rapid.IntRange(-800, 3)).Draw(t, "off")
	case "keep":
		op.Off = rapid.IntRange(-1, 2).Draw(t, "off")
	}
	op.Size = rapid.IntRange(0, 200).Draw(t, "size")
	return op
}

func drawHist(t *rapid.T) HistCase {
	c := HistCase{
		ID:      rapid.IntRange(0, len(logIDs)-1).Draw(t, "id"),
		Oname:   rapid.IntRange(0, len(onames)-1).Draw(t, "oname"),
		Level:   rapid.IntRange(0, 3).Draw(t, "level"),
		Day:     rapid.Int64Range(400, 30000).Draw(t, "day"),
		MsOfDay: rapid.OneOf(rapid.Int64Range(0, dayMs-1), rapid.Int64Range(dayMs-20000, dayMs-1), rapid.Int64Range(0, 2000)).Draw(t, "ms_of_day"),
	}
	n := rapid.IntRange(3, 45).Draw(t, "nops")
	for i := 0; i < n; i++ {
		k := rapid.SampledFrom([]string{"log", "log", "log", "log", "log", "log", "log", "adv", "adv", "adv", "adv", "cycle", "cycle", "cycle", "conf", "level", "plant", "plant", "plant", "plant"}).Draw(t, "op")
		op := Op{K: k}
		switch k {
		case "log":
			op.API = rapid.SampledFrom(apis).Draw(t, "api")
			op.P = rapid.IntRange(0, 4).Draw(t, "p")
			op.Tail = rapid.OneOf(rapid.IntRange(0, 40), rapid.IntRange(0, 1500)).Draw(t, "tail")
		case "adv":
			op.AK = rapid.SampledFrom([]string{"ms", "ms", "days", "days", "midnight", "midnight", "interval", "interval"}).Draw(t, "ak")
			switch op.AK {
			case "ms":
				op.Ms = rapid.OneOf(rapid.Int64Range(0, 3000), rapid.Int64Range(0, 5*dayMs), rapid.SampledFrom([]int64{999, 1000, 1001, 9999, 10000, 10001, 59999, 60000, dayMs - 1, dayMs, dayMs + 1})).Draw(t, "ms")
			case "days":
				op.Ms = rapid.OneOf(rapid.Int64Range(1, 9), rapid.Int64Range(1, 40)).Draw(t, "days")
			case "midnight":
				op.Ms = rapid.SampledFrom([]int64{-2 * guardMs, -guardMs - 1, 0, 0, 1, 1000, 3600000}).Draw(t, "ms")
			case "interval":
				op.Ms = rapid.SampledFrom([]int64{-1000, -2, -1, 0, 0, 1, 2, 1000}).Draw(t, "ms")
			}
		case "conf":
			op.Conf = drawConf(t)
		case "level":
			op.Lv = rapid.IntRange(0, 3).Draw(t, "lv")
		case "plant":
			op = drawPlant(t)
		}
		c.Ops = append(c.Ops, op)
	}
	if rapid.IntRange(0, 9).Draw(t, "manyids?") == 0 {
		// many different ids at once, and all of them again right away: the limiter remembers each of them, however many
		// there are (below its capacity of 1000)
		n := rapid.SampledFrom([]int{80, 160, 320}).Draw(t, "nids")
		at := rapid.IntRange(0, len(c.Ops)).Draw(t, "floodat")
		var flood []Op
		for pass := 0; pass < 2; pass++ {
			for j := 0; j < n; j++ {
				flood = append(flood, Op{K: "log", API: "Println", P: 1000 + j, Tail: j % 7})
			}
		}
		c.Ops = append(c.Ops[:at], append(flood, c.Ops[at:]...)...)
	}
	if rapid.IntRange(0, 2).Draw(t, "zone?") == 0 {
		c.Zone = rapid.SampledFrom([]int{-300, -720, 330, 540, 780}).Draw(t, "zone")
	}
	c.Stdout = rapid.IntRange(0, 3).Draw(t, "stdout?") == 0
	return c
}

var specHist = pbt.Register(pbt.Spec[HistCase]{
	Prop: "C17", Name: "logger-histories",
	Rule:  "one history in four runs with the console echo on (WithStdout(true)); histories of 3-45 actions on a logger without background goroutine in a fresh temp home under a virtual clock: log over all 12 logging methods (ids/10-byte message prefixes from 5-element alphabets; one history in ten also logs 80-320 further ids and all of them again at once), in a third of the histories with the process's local zone set -12 h .. +13 h from UTC, advance (ms, days, to midnight +-, configured interval +-), cycle, ApplyConfig(level, interval, keep-days, rotation; keys may be absent), SetLevel, plant (own dated files of any age incl. keep-days boundary, own-prefix files whose date part is not a date, undated own files, foreign look-alikes, directories); oracle = file-system + rate-limiter model checked after every cycle and at the end; non-trivial = at least one date rotation and one retention pass (rotation on, keep-days >= 1) that removes at least one file and keeps at least one file besides the current log file; distinct by action list",
	Quick: 3000, Thorough: 120000,
	Draw: drawHist,
	Run:  runHist,
})

func TestLoggerHistories(t *testing.T) { specHist.Check(t) }

// Boundary catalogue: the two defects the design phase confirmed, and the keep-days boundary.
func TestLoggerHistoriesCatalogue(t *testing.T) {
	if os.Getenv("VERIF_REPLAY") != "" {
		t.Skip("replay mode")
	}
	// own-prefix file whose "date" is 8 letters (F29), and month 13 before 2000
	for v := range badDates {
		specHist.RunCase(t, HistCase{ID: 0, Oname: 0, Level: 1, Day: 9000, MsOfDay: 1000, Ops: []Op{
			{K: "plant", PK: "bad", Var: v, Size: 10},
			{K: "plant", PK: "own", Age: "keep", Off: 0, Size: 10},
			{K: "plant", PK: "own", Age: "keep", Off: 1, Size: 10},
			{K: "log", API: "Error", P: 0, Tail: 5},
			{K: "adv", AK: "days", Ms: 1},
			{K: "cycle"},
			{K: "log", API: "Error", P: 1, Tail: 5},
		}})
	}
	for _, keep := range []string{"1", "2", "7"} {
		specHist.RunCase(t, HistCase{ID: 1, Oname: 2, Level: 0, Day: 9000, MsOfDay: dayMs - 10000, Ops: []Op{
			{K: "conf", Conf: map[string]string{"log_keep_days": keep, "log_level": "debug", "_log_interval": "1"}},
			{K: "plant", PK: "own", Age: "keep", Off: 0, Size: 3},
			{K: "plant", PK: "own", On: 1, Age: "keep", Off: 1, Size: 3},
			{K: "plant", PK: "own", On: -1, Age: "keep", Off: 1, Size: 3},
			{K: "plant", PK: "foreign", Var: 0, Age: "keep", Off: 2, Size: 3},
			{K: "plant", PK: "foreign", Var: 5, Age: "keep", Off: 2, Size: 3},
			{K: "plant", PK: "dir", Age: "keep", Off: 2},
			{K: "log", API: "Infof", P: 0, Tail: 5},
			{K: "cycle"},
			{K: "adv", AK: "midnight", Ms: 0},
			{K: "log", API: "Infof", P: 1, Tail: 5},
			{K: "cycle"},
			{K: "log", API: "Infof", P: 2, Tail: 5},
			{K: "adv", AK: "days", Ms: 1},
			{K: "cycle"},
			{K: "log", API: "Debug", P: 2, Tail: 5},
		}})
	}
}
