// C17 File logger keeps lines in order, rotates by date, prunes only its own files.
//
// Shared pieces of the three sub-checks: the virtual clock, the config.Config
// stub, message construction with unique markers, and the scanner that finds
// the marked lines again in the files under <home>/logs.
package c17

import (
	"fmt"
	"os"
	"path/filepath"
	"sort"
	"strconv"
	"strings"
	"testing"
	"time"

	"github.com/whatap/golib/logger/logfile"
	"github.com/whatap/golib/util/dateutil"
	"verif/pbt"
)

func TestMain(m *testing.M)   { pbt.Main(m, "C17") }
func TestReplay(t *testing.T) { pbt.Replay(t) }

const (
	dayMs   = int64(86400000)
	base2k  = int64(946684800000) // 2000-01-01T00:00:00Z in ms; the date unit of the property is UTC days since then
	guardMs = int64(3000)         // a virtual time closer than this to the next midnight is moved onto the midnight
)

// ---- virtual clock -------------------------------------------------------------------------------
//
// golib's clock is real time + a settable delta. The harness keeps its own copy of
// the delta it passed in and computes the bracket [lo,hi] of the virtual time during
// an action from time.Now() itself (never from dateutil), so that the oracle does not
// depend on the code under test. Real time keeps flowing (a few ms per case); every
// decision of the model that depends on time is taken on the bracket and is
// "ambiguous" (both outcomes accepted) when the bracket straddles the threshold.

type vclock struct{ delta int64 }

func (c *vclock) set(v int64) {
	c.delta = v - time.Now().UnixMilli()
	dateutil.SetDelta(c.delta)
}
func (c *vclock) add(ms int64) {
	c.delta += ms
	dateutil.SetDelta(c.delta)
}
func (c *vclock) now() int64 { return time.Now().UnixMilli() + c.delta }
func (c *vclock) reset()     { dateutil.SetDelta(0) }

func dayOf(v int64) int64 { return (v - base2k) / dayMs }

// ymd renders a day number (days since 2000-01-01 UTC) with the standard library.
func ymd(day int64) string {
	return time.UnixMilli(base2k + day*dayMs).UTC().Format("20060102")
}

// parseYmd returns the day number of an 8-digit calendar date, ok=false if the text is not one.
func parseYmd(s string) (int64, bool) {
	if len(s) != 8 {
		return 0, false
	}
	for i := 0; i < 8; i++ {
		if s[i] < '0' || s[i] > '9' {
			return 0, false
		}
	}
	y, _ := strconv.Atoi(s[0:4])
	m, _ := strconv.Atoi(s[4:6])
	d, _ := strconv.Atoi(s[6:8])
	if m < 1 || m > 12 || d < 1 {
		return 0, false
	}
	t := time.Date(y, time.Month(m), d, 0, 0, 0, 0, time.UTC)
	if t.Year() != y || int(t.Month()) != m || t.Day() != d {
		return 0, false // e.g. 31 April, 29 February of a common year
	}
	ms := t.UnixMilli() - base2k
	if ms < 0 {
		return (ms - dayMs + 1) / dayMs, true
	}
	return ms / dayMs, true
}

// ---- config stub ------------------------------------------------------------------------------------

// mapConf is a minimal config.Config over a string map (absent key -> the caller's default).
type mapConf map[string]string

func (m mapConf) ApplyDefault()       {}
func (m mapConf) GetConfFile() string { return "" }
func (m mapConf) Destroy()            {}
func (m mapConf) GetKeys() []string {
	var k []string
	for s := range m {
		k = append(k, s)
	}
	sort.Strings(k)
	return k
}
func (m mapConf) GetValue(key string) string { return m[key] }
func (m mapConf) GetValueDef(key, def string) string {
	if v, ok := m[key]; ok {
		return v
	}
	return def
}
func (m mapConf) GetBoolean(key string, def bool) bool {
	if v, ok := m[key]; ok {
		return v == "true"
	}
	return def
}
func (m mapConf) GetInt(key string, def int) int32 {
	if v, ok := m[key]; ok {
		if n, err := strconv.Atoi(v); err == nil {
			return int32(n)
		}
	}
	return int32(def)
}
func (m mapConf) GetIntSet(key, def, deli string) []int32 { return nil }
func (m mapConf) GetLong(key string, def int64) int64 {
	if v, ok := m[key]; ok {
		if n, err := strconv.ParseInt(v, 10, 64); err == nil {
			return n
		}
	}
	return def
}
func (m mapConf) GetStringArray(key string, def string, deli string) []string { return nil }
func (m mapConf) GetStringHashSet(key, def, deli string) []int32              { return nil }
func (m mapConf) GetStringHashCodeSet(key, def, deli string) []int32          { return nil }
func (m mapConf) GetFloat(key string, def float32) float32                    { return def }
func (m mapConf) SetValues(v *map[string]string)                              {}
func (m mapConf) ToString() string                                            { return fmt.Sprint(map[string]string(m)) }
func (m mapConf) String() string                                              { return m.ToString() }

// levelOf maps the four level names to the numeric levels of logger.Logger (error 3 … debug 0).
func levelOf(s string) int {
	switch strings.ToLower(s) {
	case "error":
		return 3
	case "warn":
		return 2
	case "info":
		return 1
	case "debug":
		return 0
	}
	return 2
}

// ---- messages ---------------------------------------------------------------------------------------
//
// Every logged message carries a unique marker «{m<n>}» and ends in « ;end», so a line
// can be attributed to exactly one call and a torn or merged line is recognisable.

const fillerAlphabet = "abcdefghij klmnopqrst uvwxyz0123456789 ABCDEF:/=.,%d 100% %s"

func filler(n, seed int) string {
	b := make([]byte, n)
	for i := range b {
		b[i] = fillerAlphabet[(i*7+seed*13+i/len(fillerAlphabet))%len(fillerAlphabet)]
	}
	return string(b)
}

func marker(tag string, n int) string { return "{m" + tag + strconv.Itoa(n) + "}" }

// the 12 logging methods
var apis = []string{"Errorf", "Error", "Warnf", "Warn", "Infof", "Info", "Infoln", "Debugf", "Debug", "Printf", "Println", "PrintlnStd"}

// apiLevel is the level a method logs at (3 = always), keyed tells whether the
// method is rate limited and byID whether the key is the explicit id argument.
func apiInfo(api string) (level int, limited, byID bool) {
	switch api {
	case "Errorf", "Error":
		return 3, true, false
	case "Warnf", "Warn":
		return 2, true, false
	case "Infof", "Info", "Infoln":
		return 1, true, false
	case "Debugf", "Debug":
		return 0, false, false
	case "Printf", "Println":
		return 3, true, true
	case "PrintlnStd":
		return 3, false, false
	}
	panic("unknown api " + api)
}

// callAPI performs the call and returns the text that must appear whole in one line.
// For message-keyed methods the message starts with the 10-byte prefix `key` (so that the
// limiter's key — the first 10 bytes — is exactly `key`); for Printf/Println `key` is the id.
func callAPI(l *logfile.FileLogger, api, key, mark, tail string) string {
	full := key + " " + mark + " " + tail + " ;end"
	short := mark + " " + tail + " ;end"
	switch api {
	case "Errorf":
		l.Errorf("%s %s %s ;end", key, mark, tail)
	case "Error":
		l.Error(key, mark, tail, ";end")
	case "Warnf":
		l.Warnf("%s %v %s %s", key, mark, tail, ";end")
	case "Warn":
		l.Warn(key, mark, tail, ";end")
	case "Infof":
		l.Infof(key+" %s %s ;end", mark, tail)
	case "Info":
		l.Info(key, mark, tail+" ;end")
	case "Infoln":
		l.Infoln(key, mark, tail, ";end")
	case "Debugf":
		l.Debugf("%s %s %s ;end", key, mark, tail)
	case "Debug":
		l.Debug(key, mark, tail, ";end")
	case "Printf":
		l.Printf(key, "%s %s ;end", mark, tail)
		return short
	case "Println":
		l.Println(key, mark, tail, ";end")
		return short
	case "PrintlnStd":
		l.PrintlnStd(full, false)
	default:
		panic("unknown api " + api)
	}
	return full
}

// ---- scanning the log files -----------------------------------------------------------------------------

type found struct {
	file string
	line string
	mark string
}

// scanMarkers returns the marked lines of a file in order; a line with a damaged
// marker or with more than one marker is reported as an error (torn / merged line).
func scanMarkers(name string, content []byte) ([]found, error) {
	var out []found
	for ln, line := range strings.Split(string(content), "\n") {
		i := strings.Index(line, "{m")
		if i < 0 {
			if strings.Contains(line, ";end") {
				return nil, fmt.Errorf("%s line %d carries the end of a message but no marker (torn line): %q", name, ln+1, clip(line))
			}
			continue
		}
		j := strings.Index(line[i:], "}")
		if j < 0 {
			return nil, fmt.Errorf("%s line %d holds a truncated marker (torn line): %q", name, ln+1, clip(line))
		}
		mk := line[i : i+j+1]
		if strings.Contains(line[i+j+1:], "{m") {
			return nil, fmt.Errorf("%s line %d holds more than one message (lines merged): %q", name, ln+1, clip(line))
		}
		out = append(out, found{file: name, line: line, mark: mk})
	}
	return out, nil
}

func clip(s string) string {
	if len(s) > 160 {
		return s[:120] + "…" + s[len(s)-30:]
	}
	return s
}

func newHome(tag string) (string, error) {
	return os.MkdirTemp("", "c17-"+tag+"-")
}

func logsDir(home string) string { return filepath.Join(home, "logs") }

func bucket(n int) string {
	switch {
	case n == 0:
		return "0"
	case n == 1:
		return "1"
	case n <= 3:
		return "2-3"
	case n <= 9:
		return "4-9"
	}
	return "10+"
}
