package c17

import (
	"fmt"
	"math"
	"os"
	"path/filepath"
	"sort"
	"strings"
	"testing"

	"github.com/whatap/golib/logger/logfile"
	"pgregory.net/rapid"
	"verif/pbt"
)

// RRead is one Read call. Name is a template: {home} = base name of the home directory,
// {out} = base name of a sibling directory outside the home, {cur} = the logger's current log file,
// {abs} = absolute path of the file outside the home.
type RRead struct {
	Name   string `json:"name"`
	End    int64  `json:"end"`               // end position; with EndRel: file size + End
	EndRel bool   `json:"end_rel,omitempty"` //
	Len    int64  `json:"len"`               // requested length (> 0); with LenRel: file size + Len (clamped to >= 1)
	LenRel bool   `json:"len_rel,omitempty"`
	// Again: the read is issued for the name of the previous read once more, after the file under that name (when it is
	// a regular file inside logs/) was replaced by another file with other content (1), or removed (2)
	Again int `json:"again,omitempty"`
}

type ReadCase struct {
	Sizes []int   `json:"sizes"` // sizes of a.log, sub/inner.log, ../secret.txt, ../whatap.conf, outside file
	Reads []RRead `json:"reads"`
}

var readNames = []string{
	// inside logs
	"dotnet-profiler.log", "a.log", "empty.log", "sub/inner.log", "./a.log", "sub/../a.log", "sub//inner.log", "{cur}", "../logs/a.log", "sub/../sub/inner.log",
	// not a readable file
	"missing.log", "sub", ".", "a.log/", "sub/missing.log", "{abs}", "..\\secret.txt", "a.log\x00",
	// outside logs
	"../secret.txt", "../whatap.conf", "sub/../../secret.txt", "../../{home}/secret.txt", "../../{out}/passwd", "..", "../", "../logs/../secret.txt",
	"./../secret.txt", "sub/../../../{out}/passwd", "../logs", "../../{home}/logs/../whatap.conf",
	// siblings of the logs directory whose names merely START with "logs" (a textual prefix test is not containment)
	"../logs-archive/old.log", "../logs2/x.log", "../logsecret.txt", "../logs.bak/a.log", "sub/../../logs-archive/old.log",
}

func fileBody(tag string, n int) []byte {
	b := make([]byte, 0, n+16)
	for i := 0; len(b) < n; i++ {
		// multi-byte text in every other line: a window may start or end inside a character
		if i%2 == 1 {
			b = append(b, fmt.Sprintf("%s 줄 %d 오류 발생 ✓ %s\n", tag, i, filler(i%37, i))...)
			continue
		}
		b = append(b, fmt.Sprintf("%s line %d %s\n", tag, i, filler(i%37, i))...)
	}
	return b[:n]
}

func runRead(c ReadCase) *pbt.Result {
	home, err := newHome("read")
	if err != nil {
		panic(err)
	}
	defer os.RemoveAll(home)
	out, err := os.MkdirTemp(filepath.Dir(home), "c17-out-")
	if err != nil {
		panic(err)
	}
	defer os.RemoveAll(out)
	clk := &vclock{}
	defer clk.reset()
	clk.set(base2k + 9000*dayMs + 3600000)
	l := logfile.NewNoRunForVerif(logfile.WithHomePath(home), logfile.WithOnameLogID("boot", "wt"), logfile.WithLevel(0))
	defer l.CloseForVerif()
	logs := logsDir(home)
	size := func(i int) int {
		if i < len(c.Sizes) {
			return c.Sizes[i]
		}
		return 100
	}
	must := func(err error) {
		if err != nil {
			panic(err)
		}
	}
	must(os.MkdirAll(filepath.Join(logs, "sub"), 0o755))
	must(os.WriteFile(filepath.Join(logs, "a.log"), fileBody("a", size(0)), 0o644))
	must(os.WriteFile(filepath.Join(logs, "empty.log"), nil, 0o644))
	must(os.WriteFile(filepath.Join(logs, "sub", "inner.log"), fileBody("inner", size(1)), 0o644))
	must(os.WriteFile(filepath.Join(home, "secret.txt"), fileBody("SECRET", size(2)), 0o644))
	must(os.WriteFile(filepath.Join(home, "whatap.conf"), fileBody("license=", size(3)), 0o644))
	must(os.WriteFile(filepath.Join(out, "passwd"), fileBody("root:x:", size(4)), 0o644))
	for _, sib := range []string{"logs-archive/old.log", "logs2/x.log", "logs.bak/a.log"} {
		must(os.MkdirAll(filepath.Dir(filepath.Join(home, sib)), 0o755))
		must(os.WriteFile(filepath.Join(home, sib), fileBody("ARCHIVED", size(2)), 0o644))
	}
	must(os.WriteFile(filepath.Join(home, "logsecret.txt"), fileBody("SECRET2", size(3)), 0o644))
	// the host also runs the .NET profiler, whose log lives under %ProgramData%/WhaTap (the file-listing call mentions it
	// by its bare name): the read call still serves files of the logs directory only (seed C17-s23). In half of the cases
	// the logs directory has a file of that name of its own.
	must(os.MkdirAll(filepath.Join(out, "WhaTap"), 0o755))
	must(os.WriteFile(filepath.Join(out, "WhaTap", "dotnet-profiler.log"), fileBody("DOTNET-PROFILER-OUTSIDE", size(2)+50), 0o644))
	oldPD, hadPD := os.LookupEnv("ProgramData")
	os.Setenv("ProgramData", out)
	defer func() {
		if hadPD {
			os.Setenv("ProgramData", oldPD)
		} else {
			os.Unsetenv("ProgramData")
		}
	}()
	if size(0)%2 == 0 {
		must(os.WriteFile(filepath.Join(logs, "dotnet-profiler.log"), fileBody("own", size(1)+30), 0o644))
	}
	l.Error("conn fail ", "{m1}", "first line", ";end")
	cur := fmt.Sprintf("wt-boot-%s.log", ymd(9000))

	served, outsideReal, nonEmpty := 0, 0, 0
	classes := map[string]bool{}
	for i, r := range c.Reads {
		name := strings.NewReplacer("{home}", filepath.Base(home), "{out}", filepath.Base(out), "{cur}", cur, "{abs}", filepath.Join(out, "passwd")).Replace(r.Name)
		target := filepath.Join(logs, name) // lexical resolution of the name under the logs directory
		rel, rerr := filepath.Rel(logs, target)
		outside := rerr != nil || rel == ".." || strings.HasPrefix(rel, "../")
		if r.Again > 0 && !outside {
			if st, err := os.Stat(target); err == nil && st.Mode().IsRegular() && !strings.HasSuffix(name, "/") && !strings.Contains(name, "\x00") {
				must(os.Remove(target)) // what retention, an external rotation job or an operator does
				if r.Again == 1 {
					must(os.WriteFile(target, fileBody(fmt.Sprintf("REPLACED-%d", i), int(st.Size())/2+17), 0o644))
					classes["file-replaced-between-two-reads-of-its-name"] = true
				} else {
					classes["file-removed-between-two-reads-of-its-name"] = true
				}
			}
		}
		before, berr := os.ReadFile(target)
		fsize := int64(len(before))
		end, length := r.End, r.Len
		if r.EndRel {
			end += fsize
		}
		if r.LenRel {
			length += fsize
		}
		if length < 1 {
			length = 1
		}
		ld := l.Read(name, end, length)
		after, aerr := os.ReadFile(target)
		what := fmt.Sprintf("read %d: Read(%q, %d, %d)", i, name, end, length)
		if outside {
			classes["name-outside-logs"] = true
			if berr == nil {
				outsideReal++
			}
			if ld != nil {
				return pbt.Fail("%s resolves to %s, outside %s, and was served: Before=%d, %d bytes %q", what, target, logs, ld.Before, len(ld.Text), clip(ld.Text))
			}
			continue
		}
		if ld == nil {
			classes["inside:nil"] = true
			continue
		}
		if berr != nil && aerr != nil {
			return pbt.Fail("%s returned Before=%d and %d bytes although %s cannot be read as a file (%v)", what, ld.Before, len(ld.Text), target, berr)
		}
		served++
		classes["inside:served"] = true
		if int64(len(ld.Text)) > length {
			return pbt.Fail("%s returned %d bytes, more than the requested length", what, len(ld.Text))
		}
		match := func(content []byte, e error) bool {
			if e != nil || ld.Before < 0 || ld.Before > int64(len(content)) || int64(len(ld.Text)) > int64(len(content))-ld.Before {
				return false
			}
			return string(content[ld.Before:ld.Before+int64(len(ld.Text))]) == ld.Text
		}
		if !match(before, berr) && !match(after, aerr) {
			return pbt.Fail("%s returned Before=%d Text=%q, which is not the content of the %d-byte file at that offset", what, ld.Before, clip(ld.Text), fsize)
		}
		if len(ld.Text) > 0 {
			nonEmpty++
		}
	}
	var cl []string
	for k := range classes {
		cl = append(cl, k)
	}
	sort.Strings(cl)
	return &pbt.Result{NT: nonEmpty >= 1 && outsideReal >= 1, Classes: cl}
}

func drawRead(t *rapid.T) ReadCase {
	var c ReadCase
	for i := 0; i < 5; i++ {
		c.Sizes = append(c.Sizes, rapid.OneOf(rapid.IntRange(0, 40), rapid.IntRange(0, 5000)).Draw(t, "size"))
	}
	n := rapid.IntRange(1, 10).Draw(t, "nreads")
	for i := 0; i < n; i++ {
		r := RRead{Name: rapid.SampledFrom(readNames).Draw(t, "name")}
		switch rapid.IntRange(0, 5).Draw(t, "endkind") {
		case 0:
			r.End = rapid.SampledFrom([]int64{-1, -1, -2, math.MinInt64, 0, 1, math.MaxInt64, 1 << 40}).Draw(t, "end")
		case 1, 2:
			r.EndRel = true
			r.End = rapid.Int64Range(-6, 3).Draw(t, "end")
		default:
			r.End = rapid.Int64Range(-3, 5200).Draw(t, "end")
		}
		switch rapid.IntRange(0, 5).Draw(t, "lenkind") {
		case 0:
			r.Len = rapid.SampledFrom([]int64{1, 2, 1 << 20, 1 << 40, math.MaxInt64, 4096}).Draw(t, "len")
		case 1, 2:
			r.LenRel = true
			r.Len = rapid.Int64Range(-5, 5).Draw(t, "len")
		default:
			r.Len = rapid.Int64Range(1, 6000).Draw(t, "len")
		}
		c.Reads = append(c.Reads, r)
		if rapid.IntRange(0, 3).Draw(t, "again?") == 0 {
			r2 := r
			r2.Again = rapid.IntRange(1, 2).Draw(t, "again")
			c.Reads = append(c.Reads, r2)
		}
	}
	return c
}

var specRead = pbt.Register(pbt.Spec[ReadCase]{
	Prop: "C17", Name: "read-window",
	Rule:  "a fresh home with files of generated sizes (ASCII and multi-byte UTF-8 lines alternating) inside logs/ (plain, empty, nested, the logger's current file, in half of the cases a dotnet-profiler.log) and outside it (home/secret.txt, home/whatap.conf, a sibling directory, and $ProgramData/WhaTap/dotnet-profiler.log with ProgramData set); 1-10 Read(name, endpos, length) calls with names from a catalogue of 35 templates (inside, unreadable, and names with .. that resolve outside logs/), end positions negative / 0 / around the file size / beyond / extreme, lengths 1.. around the size .. extreme; one read in four is repeated right away after the file under that name was replaced by another file or removed; oracle: a name that resolves lexically outside <home>/logs returns nil; otherwise nil or Text == content[Before:Before+len(Text)] with len(Text) <= length; non-trivial = at least one non-empty window served and at least one name pointing at an existing file outside logs/; distinct by case",
	Quick: 1500, Thorough: 60000,
	Draw: drawRead,
	Run:  runRead,
})

func TestReadWindow(t *testing.T) { specRead.Check(t) }

// Every name of the catalogue against every interesting (end, length) pair once.
func TestReadWindowCatalogue(t *testing.T) {
	if os.Getenv("VERIF_REPLAY") != "" {
		t.Skip("replay mode")
	}
	for _, name := range readNames {
		c := ReadCase{Sizes: []int{300, 120, 64, 64, 64}}
		for _, e := range []RRead{{End: -1, Len: 50}, {End: 0, Len: 10}, {End: 0, EndRel: true, Len: 1000}, {End: 1, EndRel: true, Len: 5}, {End: 100, Len: 30}, {End: 20, Len: 100}, {End: -1, Len: math.MaxInt64}} {
			e.Name = name
			c.Reads = append(c.Reads, e)
		}
		specRead.RunCase(t, c)
	}
}
