// Package gstep builds profile steps and service records from a choice stream
// (shared by C08 and C04).
package gstep

import (
	"reflect"

	wio "github.com/whatap/golib/io"
	"github.com/whatap/golib/lang/service"
	"github.com/whatap/golib/lang/step"
	"github.com/whatap/golib/lang/value"
	"verif/gpack"
	"verif/gval"
	"verif/rfl"
)

// Codec is what every step type offers (SqlStep_3 does not implement the full step.Step interface).
type Codec interface {
	Write(out *wio.DataOutputX)
	Read(in *wio.DataInputX)
}

// Spec describes one step type.
type Spec struct {
	Name       string
	Code       byte
	Registered bool // step.CreateStep(Code) yields this type (decodable through ReadStep)
	New        func() Codec
	Build      func(s *rfl.Stream) Codec
	Normalize  func(st Codec) // sections whose presence condition does not hold are absent after decoding
	Ignore     []string
}

var skip = map[reflect.Type]bool{reflect.TypeOf((*value.MapValue)(nil)): true}

func fill(p interface{}, s *rfl.Stream) {
	rfl.Fill(p, s, &rfl.Opts{Unexported: true, MaxSlice: 5, SkipTypes: skip})
}

var Specs []*Spec
var ByName = map[string]*Spec{}

// AbstractStep.Drop and AbstractStep.Opt are not carried by any step writer.
var commonIgnore = []string{"AbstractStep.Drop", "AbstractStep.Opt"}

func add(sp *Spec) {
	sp.Ignore = append(sp.Ignore, commonIgnore...)
	Specs = append(Specs, sp)
	ByName[sp.Name] = sp
}

func simple(name string, code byte, registered bool, mk func() Codec) {
	add(&Spec{Name: name, Code: code, Registered: registered, New: mk, Build: func(s *rfl.Stream) Codec {
		p := mk()
		fill(p, s)
		return p
	}})
}

func init() {
	simple("MethodStepX", step.STEP_METHOD_X, true, func() Codec { return step.NewMethodStepX() })
	simple("SqlStepX", step.STEP_SQL_X, true, func() Codec { return step.NewSqlStepX() })
	simple("ResultSetStep", step.STEP_RESULTSET, true, func() Codec { return step.NewResultSetStep() })
	add(&Spec{Name: "SocketStep", Code: step.STEP_SOCKET, Registered: true, New: func() Codec { return step.NewSocketStep() },
		Build: func(s *rfl.Stream) Codec {
			p := step.NewSocketStep()
			fill(p, s)
			// the address as the standard library hands addresses out: 4 bytes, 16 bytes (IPv6, or an IPv4 address in its
			// 16-byte IPv4-mapped form), besides the arbitrary byte strings of the generic fill
			switch s.Intn(5) {
			case 0:
				p.IpAddr = []byte{10, byte(s.Intn(256)), 0, 1}
			case 1:
				p.IpAddr = []byte{0, 0, 0, 0, 0, 0, 0, 0, 0, 0, 0xff, 0xff, 192, 168, byte(s.Intn(256)), 7}
			case 2:
				p.IpAddr = []byte{0x20, 0x01, 0x0d, 0xb8, 0, 0, 0, 0, 0, 0, 0, 0, 0, 0, byte(s.Intn(256)), 1}
			}
			return p
		}})
	simple("ActiveStackStep", step.STEP_ACTIVE_STACK, true, func() Codec { return step.NewActiveStackStep() })
	simple("MessageStep", step.STEP_MESSAGE, true, func() Codec { return step.NewMessageStep() })
	simple("SecureMsgStep", step.STEP_SECURE_MESSAGE, true, func() Codec { return step.NewSecureMsgStep() })
	simple("DBCStep", step.STEP_DBC, true, func() Codec { return step.NewDBCStep() })
	add(&Spec{Name: "HttpcStepX", Code: step.STEP_HTTPCALL_X, Registered: true, New: func() Codec { return step.NewHttpcStepX() },
		Build: func(s *rfl.Stream) Codec {
			p := step.NewHttpcStepX()
			fill(p, s)
			p.Version = byte(s.Intn(4)) // 0, 1, 2, 3
			return p
		},
		Normalize: func(st Codec) { // version-2 details are carried by version 2 only
			p := st.(*step.HttpcStepX)
			if p.Version != 2 {
				p.StepId, p.Driver, p.OriginUrl, p.Param = 0, "", "", ""
			}
		}})
	add(&Spec{Name: "MessageStepX", Code: step.STEP_MESSAGE_X, Registered: false, New: func() Codec { return step.NewMessageStepX() },
		Build: func(s *rfl.Stream) Codec {
			p := step.NewMessageStepX()
			fill(p, s)
			switch s.Intn(3) {
			case 0:
				p.Attr = nil
			case 1:
				p.Attr = value.NewMapValue()
			default:
				p.Attr = gval.ToGolib(gpack.SMap(s, 2)).(*value.MapValue)
			}
			return p
		}})
	add(&Spec{Name: "SqlStep_3", Code: step.STEP_SQL_X, Registered: false, New: func() Codec { return step.NewSqlStep_3() },
		Build: func(s *rfl.Stream) Codec {
			p := step.NewSqlStep_3()
			fill(p, s)
			p.Opt = byte(s.Intn(8)) | byte(s.Intn(2))<<(3+uint(s.Intn(5))) // the three section flags in every combination, plus a stray high bit
			return p
		},
		Normalize: func(st Codec) {
			p := st.(*step.SqlStep_3)
			if p.Opt&1 == 0 {
				p.P1, p.P2, p.Pcrc = nil, nil, 0
			}
			if p.Opt&2 == 0 {
				p.StartCpu, p.Cpu, p.StartMem, p.Mem = 0, 0, 0, 0
			}
			if p.Opt&4 == 0 {
				p.Stack = nil
			}
		}})
	// SqlStep_3 has its own Opt field (carried); only the embedded one is not.
	ByName["SqlStep_3"].Ignore = []string{"AbstractStep.Drop", "AbstractStep.Opt"}
}

// Registered returns the names of the types ReadStep can decode.
func Registered() []string {
	var out []string
	for _, sp := range Specs {
		if sp.Registered {
			out = append(out, sp.Name)
		}
	}
	return out
}

// ---- services ---------------------------------------------------------------------------

// ServiceSpec describes one service record type.
type ServiceSpec struct {
	Name   string
	Code   byte
	Build  func(s *rfl.Stream) service.Service
	Ignore []string
}

var Services = []*ServiceSpec{
	{Name: "WasService", Code: service.SERVICE_WAS, Build: func(s *rfl.Stream) service.Service {
		p := service.NewWasService()
		fill(p, s)
		return p
	}, Ignore: []string{"AbstractService.Mtid", "AbstractService.Mdepth", "AbstractService.Mcaller"}},
	{Name: "AppService", Code: service.SERVICE_APP, Build: func(s *rfl.Stream) service.Service {
		p := service.NewAppService()
		fill(p, s)
		return p
	}, Ignore: []string{"AbstractService.Mtid", "AbstractService.Mdepth", "AbstractService.Mcaller"}},
	{Name: "WasService2", Code: service.SERVICE_WAS_2, Build: func(s *rfl.Stream) service.Service {
		p := service.NewWasService2()
		fill(p, s)
		return p
	}, Ignore: []string{"WasService.AbstractService.Mtid", "WasService.AbstractService.Mdepth", "WasService.AbstractService.Mcaller"}},
}
