package c05

// logsink-lifecycle: a log-sink pack is not always encoded exactly once right
// after it was built. The agent encodes it, sets the object identity, lets the
// pack copy the identity into its tags (TransferOidToTag) and encodes it again.
// Every encoding of the sequence must equal the reference encoder's, whose tag
// hash field is: the stored hash, or - when that is zero and there are tags, or
// when the pack itself has just added tags - the 64-bit hash of the encoded tag
// map that follows it.

import (
	"io"
	"net"
	"os"
	"time"

	"bytes"
	"fmt"
	"github.com/whatap/golib/net/oneway"
	"reflect"
	"runtime"
	"sync"
	"sync/atomic"
	"testing"

	"github.com/whatap/golib/lang/pack"
	"github.com/whatap/golib/lang/value"
	"pgregory.net/rapid"
	"verif/gpack"
	"verif/pbt"
	"verif/ref"
	"verif/rfl"
)

type LStep struct {
	K     string `json:"k"`               // write | ids | transfer
	Oid   int32  `json:"oid,omitempty"`   // for ids
	Okind int32  `json:"okind,omitempty"` //
	Onode int32  `json:"onode,omitempty"` //
}

type LifeCase struct {
	Pack    gpack.Case `json:"pack"`
	Stored  int64      `json:"stored"` // tag hash stored in the pack at the start (0: to be computed)
	PreTags []string   `json:"pre,omitempty"`
	Steps   []LStep    `json:"steps"`
}

func tagKeys(p *pack.LogSinkPack) map[string]bool {
	m := map[string]bool{}
	for en := p.Tags.Keys(); en.HasMoreElements(); {
		m[en.NextString()] = true
	}
	return m
}

func runLife(c LifeCase) *pbt.Result {
	gpack.ResetAux()
	c.Pack.Type = "LogSinkPack"
	p := gpack.ByName["LogSinkPack"].Build(c.Pack.Stream(), 0).(*pack.LogSinkPack)
	for i, k := range c.PreTags {
		p.Tags.PutLong(k, int64(1000+i))
	}
	p.TagHash = c.Stored
	stored := c.Stored // the model's idea of the stored hash
	writes, transfersThatAdded := 0, 0
	var hist []string
	for i, st := range c.Steps {
		switch st.K {
		case "ids":
			p.SetOID(st.Oid)
			p.SetOKIND(st.Okind)
			p.SetONODE(st.Onode)
			hist = append(hist, fmt.Sprintf("ids(%d,%d,%d)", st.Oid, st.Okind, st.Onode))
		case "transfer":
			before := tagKeys(p)
			h := hdr(p)
			p.TransferOidToTag()
			after := tagKeys(p)
			hist = append(hist, "transfer")
			added := false
			for _, kv := range []struct {
				k string
				v int32
			}{{"oid", h.Oid}, {"okind", h.Okind}, {"onode", h.Onode}} {
				want := before[kv.k] || kv.v != 0
				if after[kv.k] != want {
					return pbt.Fail("step %d (%v): after TransferOidToTag tag %q present=%v, expected %v (value %d, present before: %v)", i, hist, kv.k, after[kv.k], want, kv.v, before[kv.k])
				}
				if !before[kv.k] && after[kv.k] {
					added = true
					if got := p.Tags.GetLong(kv.k); got != int64(kv.v) {
						return pbt.Fail("step %d (%v): tag %q = %d, the pack's %s is %d", i, hist, kv.k, got, kv.k, kv.v)
					}
				}
			}
			for k := range after {
				if !before[k] && k != "oid" && k != "okind" && k != "onode" {
					return pbt.Fail("step %d (%v): TransferOidToTag added the unrelated tag %q", i, hist, k)
				}
			}
			for k := range before {
				if !after[k] {
					return pbt.Fail("step %d (%v): TransferOidToTag removed tag %q", i, hist, k)
				}
			}
			if added {
				stored = 0 // the pack changed its own tags: the hash has to be that of the new map
				transfersThatAdded++
			}
		case "write":
			tags := mapView(p.Tags)
			w := ref.NewW()
			w.I16(p.GetPackType())
			w.Raw(ref.LogSinkBody(hdr(p), p.Category, stored, tags, p.Line, p.Content, mapView(p.Fields)))
			want := w.B
			got := append([]byte(nil), pack.ToBytesPack(p)...)
			hist = append(hist, "write")
			if !bytes.Equal(got, want) {
				k := 0
				for k < len(got) && k < len(want) && got[k] == want[k] {
					k++
				}
				return pbt.Fail("step %d (%v): encoding differs from the reference encoder at offset %d (golib …%x, reference …%x); reference tag hash rule: stored hash %d, %d tags", i, hist, k, clip(got, k), clip(want, k), stored, len(tags.K))
			}
			if stored == 0 && len(tags.K) > 0 {
				stored = ref.Hash64(ref.ValueBytes(tags))
			}
			writes++
		}
	}
	classes := []string{fmt.Sprintf("writes=%d", writes)}
	if transfersThatAdded > 0 {
		classes = append(classes, "transfer-added-tags")
	}
	nt := false
	// non-trivial: a transfer that added tags sits between two writes
	seenWrite, seenAdd := false, false
	for _, h := range hist {
		switch {
		case h == "write" && seenWrite && seenAdd:
			nt = true
		case h == "write":
			seenWrite = true
		case h == "transfer" && seenWrite:
			seenAdd = transfersThatAdded > 0
		}
	}
	if nt {
		classes = append(classes, "write-transfer-write")
	}
	return &pbt.Result{NT: nt, Classes: classes}
}

var specLife = pbt.Register(pbt.Spec[LifeCase]{
	Prop: "C05", Name: "logsink-lifecycle",
	Rule:  "a generated log-sink pack (tag hash stored 0 or a generated value, 0-3 of the tags oid/okind/onode already present) goes through 2-7 steps of: set object id/kind/node (each zero or not) | TransferOidToTag | encode; after a transfer the tags oid/okind/onode must be present exactly when they were before or the pack's value is non-zero, with that value; every encoding must equal the reference encoder's body whose tag-hash field is the stored hash, or the 64-bit hash of the encoded tag map when the stored hash is zero or the pack has added tags itself since; non-trivial = a transfer that added tags lies between two encodings; distinct by case",
	Quick: 1500, Thorough: 80000,
	Draw: func(t *rapid.T) LifeCase {
		c := LifeCase{Pack: gpack.Case{Type: "LogSinkPack", Seed: rapid.Uint64().Draw(t, "seed"), Len: rapid.SampledFrom([]int{0, 5, 40, 400}).Draw(t, "len")}}
		if rapid.IntRange(0, 3).Draw(t, "stored?") == 0 {
			c.Stored = rapid.Int64().Draw(t, "stored")
		}
		for _, k := range []string{"oid", "okind", "onode"} {
			if rapid.IntRange(0, 3).Draw(t, "pre?") == 0 {
				c.PreTags = append(c.PreTags, k)
			}
		}
		id := rapid.OneOf(rapid.Just(int32(0)), rapid.Just(int32(0)), rapid.Int32())
		n := rapid.IntRange(2, 7).Draw(t, "nsteps")
		if rapid.Bool().Draw(t, "template") {
			// the agent's usual order, then free steps
			c.Steps = []LStep{{K: "write"}, {K: "ids", Oid: id.Draw(t, "oid"), Okind: id.Draw(t, "okind"), Onode: id.Draw(t, "onode")}, {K: "transfer"}, {K: "write"}}
			n = rapid.IntRange(0, 3).Draw(t, "nextra")
		}
		for i := 0; i < n; i++ {
			st := LStep{K: rapid.SampledFrom([]string{"write", "write", "ids", "transfer", "transfer"}).Draw(t, "k")}
			if st.K == "ids" {
				st.Oid, st.Okind, st.Onode = id.Draw(t, "oid"), id.Draw(t, "okind"), id.Draw(t, "onode")
			}
			c.Steps = append(c.Steps, st)
		}
		return c
	},
	Run: runLife,
})

func TestLogSinkLifecycle(t *testing.T) { specLife.Check(t) }

func TestLogSinkLifecycleCatalogue(t *testing.T) {
	for _, ids := range [][3]int32{{1, 0, 0}, {0, 2, 0}, {0, 0, 3}, {1, 2, 3}, {0, 0, 0}} {
		for _, pre := range [][]string{nil, {"oid"}, {"oid", "okind"}, {"oid", "okind", "onode"}} {
			specLife.RunCase(t, LifeCase{Pack: gpack.Case{Seed: 7, Len: 40}, PreTags: pre, Steps: []LStep{{K: "write"}, {K: "ids", Oid: ids[0], Okind: ids[1], Onode: ids[2]}, {K: "transfer"}, {K: "write"}, {K: "transfer"}, {K: "write"}}})
		}
	}
}

// ---- concurrent encoders ------------------------------------------------------------------------------

// ConcEncCase: every pack is its own object, built and given its reference bytes sequentially; then the packs are
// encoded by several goroutines at the same time (the agent encodes counters, logs and tags from different goroutines).
type ConcEncCase struct {
	Packs []gpack.Case `json:"packs"`
	G     int          `json:"g"`
	// TagHeavy: every tag-count / log-sink pack additionally gets 8-31 tags with values of 40-240 bytes (kilobytes of
	// tag map per pack, as with container labels), so that the encoders spend their time on the tag maps
	TagHeavy bool `json:"tag_heavy,omitempty"`
	// Rounds > 1: every goroutine encodes its packs this many times, clearing the stored tag hash before each encoding
	// (the hash is computed again), so that the case runs long enough for goroutines to be preempted inside the encoders
	Rounds int `json:"rounds,omitempty"`
}

func clearTagHash(p pack.Pack) {
	switch x := p.(type) {
	case *pack.TagCountPack:
		rfl.Field(x, "tagHash").SetInt(0)
	case *pack.LogSinkPack:
		x.TagHash = 0
	}
}

func runConcEnc(c ConcEncCase) *pbt.Result {
	gpack.ResetAux()
	type item struct {
		p            pack.Pack
		want         []byte
		got          []byte
		err          interface{}
		hashComputed bool // the pack was built with tag hash 0 and tags: Write computes the hash
	}
	items := make([]*item, len(c.Packs))
	types := map[string]bool{}
	for i, pc := range c.Packs {
		p, recs := build(pc)
		if c.TagHeavy {
			var tags *value.MapValue
			switch x := p.(type) {
			case *pack.TagCountPack:
				tags = x.Tags
			case *pack.LogSinkPack:
				tags = x.Tags
			}
			if tags != nil {
				n, width := 8+i%24, 40+(i*7)%200
				for k := 0; k < n; k++ {
					v := make([]byte, width)
					for j := range v {
						v[j] = byte('a' + (i+k+j)%26)
					}
					tags.PutString(fmt.Sprintf("label_%d_%d", i%7, k), string(v))
				}
			}
		}
		w := ref.NewW()
		w.I16(p.GetPackType())
		w.Raw(refBody(p, recs))
		items[i] = &item{p: p, want: w.B}
		switch x := p.(type) {
		case *pack.TagCountPack:
			items[i].hashComputed = x.GetTagHash() == 0 && x.Tags.Size() > 0
		case *pack.LogSinkPack:
			items[i].hashComputed = x.TagHash == 0 && x.Tags.Size() > 0
		}
		types[pc.Type] = true
	}
	g := c.G
	if g < 2 {
		g = 2
	}
	rounds := c.Rounds
	if rounds < 1 {
		rounds = 1
	}
	var failed atomic.Bool
	var wg sync.WaitGroup
	var gate atomic.Int32
	for w := 0; w < g; w++ {
		wg.Add(1)
		go func(w int) {
			defer wg.Done()
			for gate.Load() == 0 {
			}
			for round := 0; round < rounds && !failed.Load(); round++ {
				for i := w; i < len(items); i += g {
					func() {
						defer func() {
							if r := recover(); r != nil {
								items[i].err = r
								failed.Store(true)
							}
						}()
						if round > 0 {
							if !items[i].hashComputed {
								return // a stored (generated) tag hash is written as it is; nothing to recompute
							}
							clearTagHash(items[i].p)
						}
						got := pack.ToBytesPack(items[i].p)
						if !bytes.Equal(got, items[i].want) {
							items[i].got = append([]byte(nil), got...)
							failed.Store(true)
						} else if items[i].got == nil {
							items[i].got = items[i].want
						}
					}()
				}
			}
		}(w)
	}
	// collections run meanwhile: whatever the encoders keep in pools or caches is shuffled between goroutines
	stopGC := make(chan struct{})
	gcDone := make(chan struct{})
	go func() {
		defer close(gcDone)
		for {
			select {
			case <-stopGC:
				return
			default:
				runtime.GC()
			}
		}
	}()
	gate.Store(1)
	wg.Wait()
	close(stopGC)
	<-gcDone
	for i, it := range items {
		if it.err != nil {
			return pbt.Fail("pack %d (%s): encoding panicked while %d goroutines encoded different packs: %v", i, c.Packs[i].Type, g, it.err)
		}
		if !bytes.Equal(it.got, it.want) {
			k := 0
			for k < len(it.got) && k < len(it.want) && it.got[k] == it.want[k] {
				k++
			}
			return pbt.Fail("pack %d (%s): encoded by one of %d goroutines working on different packs, its bytes differ from the reference encoder at offset %d (golib …%x, reference …%x)", i, c.Packs[i].Type, g, k, clip(it.got, k), clip(it.want, k))
		}
	}
	var cl []string
	for k := range types {
		cl = append(cl, "type="+k)
	}
	return &pbt.Result{NT: len(items) >= 2*g, Classes: cl}
}

var specConcEnc = pbt.Register(pbt.Spec[ConcEncCase]{
	Prop: "C05", Name: "concurrent-encoders",
	Rule:  "16-200 packs of the covered types (tag-count and log-sink packs with tags twice as likely), or 300-900 tag-count / log-sink packs with 8-31 extra tags of 40-240 bytes each (these by 24-64 goroutines for 20-60 rounds, the stored tag hash cleared before every encoding, with garbage collections running), are built one by one and given their reference bytes, then encoded by 2-16 goroutines at the same time, each pack by exactly one goroutine; every encoding must equal its reference bytes (encoders of different packs share nothing); non-trivial = at least two packs per goroutine; distinct by case",
	Quick: 64, Thorough: 1200,
	Draw: func(t *rapid.T) ConcEncCase {
		c := ConcEncCase{G: rapid.IntRange(2, 16).Draw(t, "g")}
		names := append(append([]string{}, bodyTypes...), "TagCountPack", "LogSinkPack", "TagCountPack", "LogSinkPack", "TagCountPack", "LogSinkPack")
		if rapid.Bool().Draw(t, "manysmall") {
			// thousands of small tag / log packs: the encoders spend their time in the shared paths (tag hash, headers)
			c.TagHeavy = true
			c.G = rapid.IntRange(24, 64).Draw(t, "gmany") // more goroutines than processors: they preempt each other
			c.Rounds = rapid.IntRange(20, 60).Draw(t, "rounds")
			n := rapid.IntRange(300, 900).Draw(t, "n")
			seed := rapid.Uint64().Draw(t, "seed")
			for i := 0; i < n; i++ {
				c.Packs = append(c.Packs, gpack.Case{Type: []string{"TagCountPack", "LogSinkPack"}[i%2], Seed: seed + uint64(i)*0x9e3779b97f4a7c15, Len: 12})
			}
			return c
		}
		n := rapid.IntRange(16, 200).Draw(t, "n")
		for i := 0; i < n; i++ {
			c.Packs = append(c.Packs, gpack.Case{Type: rapid.SampledFrom(names).Draw(t, "type"), Seed: rapid.Uint64().Draw(t, "seed"), Len: rapid.SampledFrom([]int{5, 40, 400}).Draw(t, "len")})
		}
		return c
	},
	Run: runConcEnc,
})

func TestConcurrentEncoders(t *testing.T) { specConcEnc.Check(t) }

// ---- encode, change scalar fields, encode again ----------------------------------------------------------------

type RewriteCase struct {
	Pack  gpack.Case `json:"pack"`
	Seed2 uint64     `json:"seed2"` // new values for the scalar fields
	Times int        `json:"times"` // how many change / encode rounds
}

// refillScalars gives every exported scalar field of the pack (and of its common header) a new value; maps, lists,
// byte blocks and nested objects are left alone (the packs do not track changes made behind their back to those).
func refillScalars(p pack.Pack, s *rfl.Stream) int {
	n := 0
	var walk func(v reflect.Value)
	walk = func(v reflect.Value) {
		t := v.Type()
		for i := 0; i < t.NumField(); i++ {
			f := t.Field(i)
			if f.PkgPath != "" {
				continue
			}
			fv := v.Field(i)
			switch fv.Kind() {
			case reflect.Struct:
				walk(fv)
			case reflect.Int8, reflect.Int16, reflect.Int32, reflect.Int64, reflect.Int:
				if f.Name == "TagHash" {
					continue // a stored tag hash is the caller's statement about the tags; not a free scalar
				}
				x := s.Int64()
				if fv.OverflowInt(x) {
					x = int64(int8(x))
				}
				fv.SetInt(x)
				n++
			case reflect.Uint8:
				fv.SetUint(uint64(uint8(s.Int64())))
				n++
			case reflect.Bool:
				fv.SetBool(s.Bool())
				n++
			case reflect.String:
				fv.SetString(s.String())
				n++
			case reflect.Float32, reflect.Float64:
				fv.SetFloat(float64(s.Float32()))
				n++
			}
		}
	}
	walk(reflect.ValueOf(p).Elem())
	return n
}

func runRewrite(c RewriteCase) *pbt.Result {
	gpack.ResetAux()
	p, recs := build(c.Pack)
	s2 := rfl.NewStream(nil, c.Seed2, 400)
	changed, refilled := 0, 0
	for round := 0; round <= c.Times; round++ {
		if round > 0 {
			changed += refillScalars(p, s2)
			if zp, ok := p.(*pack.ZipPack); ok && zp.Status > 2 {
				zp.Status %= 3
			}
			// a sender keeps one zip pack per target and fills it again for the next interval (seed C05-s24): the
			// new records replace the old ones
			if zp, ok := p.(*pack.ZipPack); ok && s2.Intn(2) == 0 {
				var inner []pack.Pack
				var raw []byte
				for k := s2.Intn(4); k > 0; k-- {
					ip, _ := build(gpack.Case{Type: []string{"ParamPack", "EventPack", "LogSinkPack", "TagCountPack"}[s2.Intn(4)], Seed: uint64(s2.Int64()), Len: 40})
					inner = append(inner, ip)
					raw = append(raw, pack.ToBytesPack(ip)...)
				}
				zp.SetRecords(inner)
				refilled++
				if zp.RecordCount != len(inner) || !bytes.Equal(zp.Records, raw) {
					return pbt.Fail("ZipPack filled again with SetRecords(%d packs, %d bytes encoded) before encoding number %d: RecordCount = %d, Records holds %d bytes", len(inner), len(raw), round+1, zp.RecordCount, len(zp.Records))
				}
			}
		}
		w := ref.NewW()
		w.I16(p.GetPackType())
		w.Raw(refBody(p, recs))
		want := w.B
		got := pack.ToBytesPack(p)
		if !bytes.Equal(got, want) {
			k := 0
			for k < len(got) && k < len(want) && got[k] == want[k] {
				k++
			}
			return pbt.Fail("%s, encoding number %d of the same object (its scalar fields were given new values before each re-encoding): bytes differ from the reference encoder at offset %d (golib …%x, reference …%x)", c.Pack.Type, round+1, k, clip(got, k), clip(want, k))
		}
	}
	cls := []string{"type=" + c.Pack.Type}
	if refilled > 0 {
		cls = append(cls, "zip-pack-filled-again")
	}
	return &pbt.Result{NT: changed > 0, Classes: cls}
}

var specRewrite = pbt.Register(pbt.Spec[RewriteCase]{
	Prop: "C05", Name: "encode-change-encode",
	Rule:  "a pack of one of the eight covered types is encoded, then 1-3 times every exported scalar field (header included; maps, lists and byte blocks are left alone) gets a new value - a zip pack is, every other time, also filled again with SetRecords (0-3 new inner packs, which replace the old ones) - and the same object is encoded again; every encoding must equal the reference encoder's bytes for the object's fields at that moment (nothing a previous encoding computed may be written again); non-trivial = at least one scalar field changed; distinct by case",
	Quick: 2500, Thorough: 120000,
	Draw: func(t *rapid.T) RewriteCase {
		names := []string{}
		for _, n := range bodyTypes {
			if n != "TextPack" { // its records are only reachable through AddText; it has no scalar body fields
				names = append(names, n)
			}
		}
		return RewriteCase{Pack: gpack.Case{Type: rapid.SampledFrom(names).Draw(t, "type"), Seed: rapid.Uint64().Draw(t, "seed"), Len: rapid.SampledFrom([]int{5, 40, 400}).Draw(t, "len")},
			Seed2: rapid.Uint64().Draw(t, "seed2"), Times: rapid.IntRange(1, 3).Draw(t, "times")}
	},
	Run: runRewrite,
})

func TestEncodeChangeEncode(t *testing.T) { specRewrite.Check(t) }

// ---- frames of concurrent senders as the collector sees them -------------------------------------------------

type ConcFrameCase struct {
	Packs []gpack.Case `json:"packs"`
	G     int          `json:"g"`
}

func runConcFrames(c ConcFrameCase) *pbt.Result {
	gpack.ResetAux()
	const lic = "license-for-concurrent-senders"
	type item struct {
		p     pack.Pack
		frame []byte
	}
	items := make([]item, len(c.Packs))
	want := map[string]int{}
	total := 0
	for i, pc := range c.Packs {
		p, recs := build(pc)
		w := ref.NewW()
		w.I16(p.GetPackType())
		w.Raw(refBody(p, recs))
		f := ref.Frame(10, 0, p.GetPCODE(), ref.Hash64([]byte(lic)), w.B)
		items[i] = item{p, f}
		want[string(f)]++
		total += len(f)
	}
	ln, err := listenPrivate()
	if err != nil {
		return pbt.Fail("harness cannot listen on loopback: %v", err)
	}
	defer ln.Close()
	type rcv struct {
		b   []byte
		err error
	}
	ch := make(chan rcv, 1)
	go func() {
		conn, err := ln.Accept()
		if err != nil {
			ch <- rcv{nil, err}
			return
		}
		defer conn.Close()
		conn.SetReadDeadline(time.Now().Add(60 * time.Second))
		buf := make([]byte, total)
		_, err = io.ReadFull(conn, buf)
		ch <- rcv{buf, err}
	}()
	cl := oneway.NewForVerif(oneway.WithServers([]string{ln.Addr().String()}), oneway.WithLicense(lic), oneway.WithPcode(1))
	defer cl.Close()
	g := c.G
	if g < 2 {
		g = 2
	}
	var wg sync.WaitGroup
	var gate atomic.Int32
	errs := make([]error, g)
	for w := 0; w < g; w++ {
		wg.Add(1)
		go func(w int) {
			defer wg.Done()
			for gate.Load() == 0 {
			}
			for i := w; i < len(items); i += g {
				if e := cl.Send(items[i].p); e != nil && errs[w] == nil {
					errs[w] = e
				}
			}
		}(w)
	}
	gate.Store(1)
	wg.Wait()
	for w, e := range errs {
		if e != nil {
			return pbt.Fail("Send from goroutine %d on a healthy loopback connection returned %v", w, e)
		}
	}
	r := <-ch
	if r.err != nil {
		return pbt.Fail("%d goroutines sent %d packs (%d bytes of frames); the collector could not read that many bytes: %v", g, len(items), total, r.err)
	}
	// the stream must be a concatenation of exactly the reference frames, in any order
	b := r.b
	for n := 0; len(b) > 0; n++ {
		if len(b) < 22 || b[0] != 10 || b[1] != 0 {
			return pbt.Fail("%d concurrent senders: after %d whole frames the stream does not continue with a frame header (source 10, version 0): …%x", g, n, clip(b, 0))
		}
		l := int(b[18])<<24 | int(b[19])<<16 | int(b[20])<<8 | int(b[21])
		if l < 0 || 22+l > len(b) {
			return pbt.Fail("%d concurrent senders: frame %d announces %d payload bytes, %d are left", g, n, l, len(b)-22)
		}
		f := string(b[:22+l])
		if want[f] == 0 {
			return pbt.Fail("%d concurrent senders: frame %d of the stream (%d bytes) is not the reference frame of any pack that was sent, or arrived once too often", g, n, len(f))
		}
		want[f]--
		b = b[22+l:]
	}
	return &pbt.Result{NT: len(items) >= 2*g, Classes: []string{fmt.Sprintf("goroutines=%d", g)}}
}

var specConcFrames = pbt.Register(pbt.Spec[ConcFrameCase]{
	Prop: "C05", Name: "concurrent-frames",
	Rule:  "40-600 packs of the covered types are given their reference frames, then sent through ONE one-way client (direct mode) by 2-12 goroutines at the same time to a loopback listener; the byte stream the collector reads must be a concatenation of exactly those reference frames, each once, in any order (header, length and payload of no frame mixed with another's); non-trivial = at least two packs per goroutine; distinct by case",
	Quick: 30, Thorough: 1200,
	Draw: func(t *rapid.T) ConcFrameCase {
		c := ConcFrameCase{G: rapid.IntRange(2, 12).Draw(t, "g")}
		n := rapid.IntRange(40, 600).Draw(t, "n")
		for i := 0; i < n; i++ {
			c.Packs = append(c.Packs, gpack.Case{Type: rapid.SampledFrom(bodyTypes).Draw(t, "type"), Seed: rapid.Uint64().Draw(t, "seed"), Len: rapid.SampledFrom([]int{5, 40, 400}).Draw(t, "len")})
		}
		return c
	},
	Run: runConcFrames,
})

func TestConcurrentFrames(t *testing.T) { specConcFrames.Check(t) }

// listenPrivate listens on an ephemeral port of a loopback address private to this process and call (see the same
// device in the C06 harness): a client left over from another case or process cannot reach it through a re-used port.
var listenSeq atomic.Int64

func listenPrivate() (net.Listener, error) {
	var lastErr error
	for try := 0; try < 20; try++ {
		n := listenSeq.Add(1)
		ln, err := net.Listen("tcp", fmt.Sprintf("127.%d.%d.%d:0", 10+os.Getpid()%200, (n/250)%250, 1+n%250))
		if err == nil {
			return ln, nil
		}
		lastErr = err
	}
	return nil, lastErr
}
