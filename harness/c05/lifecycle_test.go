package c05

// logsink-lifecycle: a log-sink pack is not always encoded exactly once right
// after it was built. The agent encodes it, sets the object identity, lets the
// pack copy the identity into its tags (TransferOidToTag) and encodes it again.
// Every encoding of the sequence must equal the reference encoder's, whose tag
// hash field is: the stored hash, or - when that is zero and there are tags, or
// when the pack itself has just added tags - the 64-bit hash of the encoded tag
// map that follows it.

import (
	"bytes"
	"fmt"
	"testing"

	"github.com/whatap/golib/lang/pack"
	"pgregory.net/rapid"
	"verif/gpack"
	"verif/pbt"
	"verif/ref"
)

type LStep struct {
	K     string `json:"k"`               // write | ids | transfer
	Oid   int32  `json:"oid,omitempty"`   // for ids
	Okind int32  `json:"okind,omitempty"` //
	Onode int32  `json:"onode,omitempty"` //
}

type LifeCase struct {
	Pack    gpack.Case `json:"pack"`
	Stored  int64      `json:"stored"` // tag hash stored in the pack at the start (0: to be computed)
	PreTags []string   `json:"pre,omitempty"`
	Steps   []LStep    `json:"steps"`
}

func tagKeys(p *pack.LogSinkPack) map[string]bool {
	m := map[string]bool{}
	for en := p.Tags.Keys(); en.HasMoreElements(); {
		m[en.NextString()] = true
	}
	return m
}

func runLife(c LifeCase) *pbt.Result {
	gpack.ResetAux()
	c.Pack.Type = "LogSinkPack"
	p := gpack.ByName["LogSinkPack"].Build(c.Pack.Stream(), 0).(*pack.LogSinkPack)
	for i, k := range c.PreTags {
		p.Tags.PutLong(k, int64(1000+i))
	}
	p.TagHash = c.Stored
	stored := c.Stored // the model's idea of the stored hash
	writes, transfersThatAdded := 0, 0
	var hist []string
	for i, st := range c.Steps {
		switch st.K {
		case "ids":
			p.SetOID(st.Oid)
			p.SetOKIND(st.Okind)
			p.SetONODE(st.Onode)
			hist = append(hist, fmt.Sprintf("ids(%d,%d,%d)", st.Oid, st.Okind, st.Onode))
		case "transfer":
			before := tagKeys(p)
			h := hdr(p)
			p.TransferOidToTag()
			after := tagKeys(p)
			hist = append(hist, "transfer")
			added := false
			for _, kv := range []struct {
				k string
				v int32
			}{{"oid", h.Oid}, {"okind", h.Okind}, {"onode", h.Onode}} {
				want := before[kv.k] || kv.v != 0
				if after[kv.k] != want {
					return pbt.Fail("step %d (%v): after TransferOidToTag tag %q present=%v, expected %v (value %d, present before: %v)", i, hist, kv.k, after[kv.k], want, kv.v, before[kv.k])
				}
				if !before[kv.k] && after[kv.k] {
					added = true
					if got := p.Tags.GetLong(kv.k); got != int64(kv.v) {
						return pbt.Fail("step %d (%v): tag %q = %d, the pack's %s is %d", i, hist, kv.k, got, kv.k, kv.v)
					}
				}
			}
			for k := range after {
				if !before[k] && k != "oid" && k != "okind" && k != "onode" {
					return pbt.Fail("step %d (%v): TransferOidToTag added the unrelated tag %q", i, hist, k)
				}
			}
			for k := range before {
				if !after[k] {
					return pbt.Fail("step %d (%v): TransferOidToTag removed tag %q", i, hist, k)
				}
			}
			if added {
				stored = 0 // the pack changed its own tags: the hash has to be that of the new map
				transfersThatAdded++
			}
		case "write":
			tags := mapView(p.Tags)
			w := ref.NewW()
			w.I16(p.GetPackType())
			w.Raw(ref.LogSinkBody(hdr(p), p.Category, stored, tags, p.Line, p.Content, mapView(p.Fields)))
			want := w.B
			got := append([]byte(nil), pack.ToBytesPack(p)...)
			hist = append(hist, "write")
			if !bytes.Equal(got, want) {
				k := 0
				for k < len(got) && k < len(want) && got[k] == want[k] {
					k++
				}
				return pbt.Fail("step %d (%v): encoding differs from the reference encoder at offset %d (golib …%x, reference …%x); reference tag hash rule: stored hash %d, %d tags", i, hist, k, clip(got, k), clip(want, k), stored, len(tags.K))
			}
			if stored == 0 && len(tags.K) > 0 {
				stored = ref.Hash64(ref.ValueBytes(tags))
			}
			writes++
		}
	}
	classes := []string{fmt.Sprintf("writes=%d", writes)}
	if transfersThatAdded > 0 {
		classes = append(classes, "transfer-added-tags")
	}
	nt := false
	// non-trivial: a transfer that added tags sits between two writes
	seenWrite, seenAdd := false, false
	for _, h := range hist {
		switch {
		case h == "write" && seenWrite && seenAdd:
			nt = true
		case h == "write":
			seenWrite = true
		case h == "transfer" && seenWrite:
			seenAdd = transfersThatAdded > 0
		}
	}
	if nt {
		classes = append(classes, "write-transfer-write")
	}
	return &pbt.Result{NT: nt, Classes: classes}
}

var specLife = pbt.Register(pbt.Spec[LifeCase]{
	Prop: "C05", Name: "logsink-lifecycle",
	Rule:  "a generated log-sink pack (tag hash stored 0 or a generated value, 0-3 of the tags oid/okind/onode already present) goes through 2-7 steps of: set object id/kind/node (each zero or not) | TransferOidToTag | encode; after a transfer the tags oid/okind/onode must be present exactly when they were before or the pack's value is non-zero, with that value; every encoding must equal the reference encoder's body whose tag-hash field is the stored hash, or the 64-bit hash of the encoded tag map when the stored hash is zero or the pack has added tags itself since; non-trivial = a transfer that added tags lies between two encodings; distinct by case",
	Quick: 1500, Thorough: 80000,
	Draw: func(t *rapid.T) LifeCase {
		c := LifeCase{Pack: gpack.Case{Type: "LogSinkPack", Seed: rapid.Uint64().Draw(t, "seed"), Len: rapid.SampledFrom([]int{0, 5, 40, 400}).Draw(t, "len")}}
		if rapid.IntRange(0, 3).Draw(t, "stored?") == 0 {
			c.Stored = rapid.Int64().Draw(t, "stored")
		}
		for _, k := range []string{"oid", "okind", "onode"} {
			if rapid.IntRange(0, 3).Draw(t, "pre?") == 0 {
				c.PreTags = append(c.PreTags, k)
			}
		}
		id := rapid.OneOf(rapid.Just(int32(0)), rapid.Just(int32(0)), rapid.Int32())
		n := rapid.IntRange(2, 7).Draw(t, "nsteps")
		if rapid.Bool().Draw(t, "template") {
			// the agent's usual order, then free steps
			c.Steps = []LStep{{K: "write"}, {K: "ids", Oid: id.Draw(t, "oid"), Okind: id.Draw(t, "okind"), Onode: id.Draw(t, "onode")}, {K: "transfer"}, {K: "write"}}
			n = rapid.IntRange(0, 3).Draw(t, "nextra")
		}
		for i := 0; i < n; i++ {
			st := LStep{K: rapid.SampledFrom([]string{"write", "write", "ids", "transfer", "transfer"}).Draw(t, "k")}
			if st.K == "ids" {
				st.Oid, st.Okind, st.Onode = id.Draw(t, "oid"), id.Draw(t, "okind"), id.Draw(t, "onode")
			}
			c.Steps = append(c.Steps, st)
		}
		return c
	},
	Run: runLife,
})

func TestLogSinkLifecycle(t *testing.T) { specLife.Check(t) }

func TestLogSinkLifecycleCatalogue(t *testing.T) {
	for _, ids := range [][3]int32{{1, 0, 0}, {0, 2, 0}, {0, 0, 3}, {1, 2, 3}, {0, 0, 0}} {
		for _, pre := range [][]string{nil, {"oid"}, {"oid", "okind"}, {"oid", "okind", "onode"}} {
			specLife.RunCase(t, LifeCase{Pack: gpack.Case{Seed: 7, Len: 40}, PreTags: pre, Steps: []LStep{{K: "write"}, {K: "ids", Oid: ids[0], Okind: ids[1], Onode: ids[2]}, {K: "transfer"}, {K: "write"}, {K: "transfer"}, {K: "write"}}})
		}
	}
}
