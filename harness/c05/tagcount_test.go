package c05

// A tag-count pack while it is being built: the agent adds tags and counters one by one, and in between anything may
// look at the pack (its tag hash, a tag, its size, its text form). Looking is not building: the first encoding is the
// protocol's encoding of the tags and counters the pack holds at that moment, whatever was asked before.

import (
	"bytes"
	"fmt"
	"testing"

	"github.com/whatap/golib/lang/pack"
	"pgregory.net/rapid"
	"verif/gen"
	"verif/pbt"
	"verif/ref"
)

type TCOp struct {
	K   string `json:"k"` // tag | data | hash | gettag | tostring | size | write
	Key string `json:"key,omitempty"`
	Val string `json:"val,omitempty"`
	N   int64  `json:"n,omitempty"`
}

type TCCase struct {
	Category string `json:"category"`
	Pcode    int64  `json:"pcode"`
	Oid      int32  `json:"oid"`
	Time     int64  `json:"time"`
	Ops      []TCOp `json:"ops"`
}

func runTagCount(c TCCase) *pbt.Result {
	p := pack.NewTagCountPack()
	p.Category = c.Category
	p.SetPCODE(c.Pcode)
	p.SetOID(c.Oid)
	p.Time = c.Time
	written := false
	var stored int64
	looked, lookedBeforeLastTag := false, false
	var hist []string
	for i, op := range c.Ops {
		hist = append(hist, op.K)
		switch op.K {
		case "tag":
			if written {
				continue // the tag hash of a pack that has been sent is a matter of the pack's life cycle (see logsink-lifecycle), not of building it
			}
			p.PutTag(op.Key, op.Val)
			if looked {
				lookedBeforeLastTag = true
			}
		case "data":
			p.Put(op.Key, op.N)
		case "hash":
			h := p.GetTagHash()
			looked = true
			if written && h != stored {
				return pbt.Fail("op %d (%v): GetTagHash() = %d after the pack was encoded with tag hash %d", i, hist, h, stored)
			}
		case "gettag":
			p.GetTag(op.Key)
			looked = true
		case "tostring":
			_ = p.ToString()
			looked = true
		case "size":
			p.Size()
			p.IsEmpty()
			p.GetLong(op.Key)
			p.GetFloat(op.Key)
			looked = true
		case "write":
			tags, data := mapView(p.Tags), mapView(p.Data)
			if !written {
				stored = 0
				if len(tags.K) > 0 {
					stored = ref.Hash64(ref.ValueBytes(tags))
				}
			}
			w := ref.NewW()
			w.I16(p.GetPackType())
			w.Raw(ref.TagCountBody(hdr(p), p.Category, stored, tags, data))
			got := append([]byte(nil), pack.ToBytesPack(p)...)
			if !bytes.Equal(got, w.B) {
				k := 0
				for k < len(got) && k < len(w.B) && got[k] == w.B[k] {
					k++
				}
				return pbt.Fail("op %d (%v): the encoding differs from the reference encoder of the protocol layout at offset %d (golib …%x, reference …%x): %d tags, tag hash field must be the 64-bit hash of the encoded tag map (%d)", i, hist, k, clip(got, k), clip(w.B, k), len(tags.K), stored)
			}
			written = true
		}
	}
	return &pbt.Result{NT: lookedBeforeLastTag && written, Classes: []string{fmt.Sprintf("looked-at-while-being-built=%v", lookedBeforeLastTag), fmt.Sprintf("encoded=%v", written)}}
}

var specTagCount = pbt.Register(pbt.Spec[TCCase]{
	Prop: "C05", Name: "tagcount-building",
	Rule:  "a tag-count pack is built by 2-14 steps of PutTag / Put (counters) mixed with accessors (GetTagHash, GetTag, ToString, Size/IsEmpty/GetLong/GetFloat) and 1-3 encodings (tags are only added before the first encoding); every encoding must equal the reference body: header, version 0, category, tag hash = 64-bit hash of the encoded tag map as it is at the first encoding (0 without tags), tag map, data map; after an encoding GetTagHash() is the hash that was sent; non-trivial = an accessor ran before the last tag was added and the pack was encoded; distinct by case",
	Quick: 2500, Thorough: 100000,
	Draw: func(t *rapid.T) TCCase {
		c := TCCase{Category: gen.SmallString().Draw(t, "category"), Pcode: gen.Int64().Draw(t, "pcode"), Oid: gen.Int32().Draw(t, "oid"), Time: gen.Int64().Draw(t, "time")}
		key := rapid.SampledFrom([]string{"host", "oname", "type", "k", "", "한글"})
		n := rapid.IntRange(2, 14).Draw(t, "nops")
		for i := 0; i < n; i++ {
			op := TCOp{K: rapid.SampledFrom([]string{"tag", "tag", "tag", "data", "data", "hash", "hash", "gettag", "tostring", "size", "write"}).Draw(t, "k"), Key: key.Draw(t, "key")}
			switch op.K {
			case "tag":
				op.Val = gen.SmallString().Draw(t, "val")
			case "data":
				op.N = gen.Int64().Draw(t, "n")
			}
			c.Ops = append(c.Ops, op)
		}
		c.Ops = append(c.Ops, TCOp{K: "write"})
		return c
	},
	Run: runTagCount,
})

func TestTagCountBuilding(t *testing.T) {
	specTagCount.RunCase(t, TCCase{Category: "c", Pcode: 1, Ops: []TCOp{{K: "tag", Key: "a", Val: "1"}, {K: "hash"}, {K: "tag", Key: "b", Val: "2"}, {K: "write"}, {K: "hash"}, {K: "write"}}})
	specTagCount.Check(t)
}
