package c05

// What the collector sees after a frame was torn. The collector resets a connection in the middle of a large frame
// (it restarts, a proxy drops the connection); whatever the client does about the lost pack, everything it puts on the
// wire afterwards is frames: each later connection starts with a frame header (10, 0, project code, license hash,
// length) and carries whole reference frames of packs that were sent; the torn connection carried a prefix of the
// reference frame.

import (
	"bytes"
	"fmt"
	"net"
	"sync"
	"testing"
	"time"

	"github.com/whatap/golib/lang/pack"
	"github.com/whatap/golib/net/oneway"
	"pgregory.net/rapid"
	"verif/pbt"
	"verif/ref"
)

type TornCase struct {
	Size  int   `json:"size"`  // content bytes of the large log-sink pack
	Cut   int   `json:"cut"`   // the collector resets the first connection after reading this many bytes
	After []int `json:"after"` // content sizes of the packs sent afterwards
}

func tornPack(id int64, size int) *pack.LogSinkPack {
	p := pack.NewLogSinkPack()
	p.SetPCODE(77)
	p.SetOID(int32(id))
	p.Time = id
	p.Category = "torn"
	p.Tags.PutString("k", "v")
	b := make([]byte, size)
	for i := range b {
		b[i] = byte('a' + (i*7+int(id))%26)
	}
	p.Content = string(b)
	return p
}

func tornFrame(p *pack.LogSinkPack, license string) []byte {
	w := ref.NewW()
	w.I16(p.GetPackType())
	tags := mapView(p.Tags)
	w.Raw(ref.LogSinkBody(hdr(p), p.Category, ref.Hash64(ref.ValueBytes(tags)), tags, p.Line, p.Content, mapView(p.Fields)))
	return ref.Frame(10, 0, p.GetPCODE(), ref.Hash64([]byte(license)), w.B)
}

func runTorn(c TornCase) *pbt.Result {
	const license = "torn-license"
	ln, err := listenPrivate()
	if err != nil {
		return pbt.Fail("harness cannot listen on loopback: %v", err)
	}
	defer ln.Close()
	var mu sync.Mutex
	var bufs [][]byte
	var done []bool
	var wg sync.WaitGroup
	go func() {
		for {
			conn, err := ln.Accept()
			if err != nil {
				return
			}
			mu.Lock()
			idx := len(bufs)
			bufs = append(bufs, nil)
			done = append(done, false)
			mu.Unlock()
			wg.Add(1)
			go func(conn *net.TCPConn, idx int) {
				defer wg.Done()
				tmp := make([]byte, 64*1024)
				for {
					want := len(tmp)
					if idx == 0 {
						mu.Lock()
						rem := c.Cut - len(bufs[0])
						mu.Unlock()
						if rem <= 0 {
							conn.SetLinger(0) // reset
							conn.Close()
							break
						}
						if rem < want {
							want = rem
						}
					}
					conn.SetReadDeadline(time.Now().Add(100 * time.Millisecond))
					n, err := conn.Read(tmp[:want])
					mu.Lock()
					bufs[idx] = append(bufs[idx], tmp[:n]...)
					mu.Unlock()
					if err != nil {
						if ne, ok := err.(net.Error); ok && ne.Timeout() {
							continue
						}
						conn.Close()
						break
					}
				}
				mu.Lock()
				done[idx] = true
				mu.Unlock()
			}(conn.(*net.TCPConn), idx)
		}
	}()
	cl := oneway.NewForVerif(oneway.WithServers([]string{ln.Addr().String()}), oneway.WithLicense(license), oneway.WithPcode(77))
	cl.Timeout = 5 * time.Second
	frames := map[string]int{}
	big := tornPack(1, c.Size)
	bigFrame := tornFrame(big, license)
	frames[string(bigFrame)] = 1
	sendErrs := 0
	if err := cl.Send(big); err != nil {
		sendErrs++
	}
	for i, sz := range c.After {
		p := tornPack(int64(2+i), sz)
		frames[string(tornFrame(p, license))] = 2 + i
		// the pack is offered until the client takes it (a reported failure is the documented way to lose a pack)
		for try := 0; try < 4; try++ {
			if err := cl.Send(p); err == nil {
				break
			}
			sendErrs++
			time.Sleep(5 * time.Millisecond)
		}
	}
	cl.Close()
	// everything the client wrote has been read when every connection has seen its end
	deadline := time.Now().Add(15 * time.Second)
	for {
		mu.Lock()
		all := len(done) > 0
		for _, d := range done {
			all = all && d
		}
		mu.Unlock()
		if all {
			break
		}
		if time.Now().After(deadline) {
			return &pbt.Result{Classes: []string{"inconclusive:connections-did-not-end"}}
		}
		time.Sleep(time.Millisecond)
	}
	ln.Close()
	mu.Lock()
	defer mu.Unlock()
	if len(bufs[0]) > len(bigFrame) || !bytes.Equal(bufs[0], bigFrame[:len(bufs[0])]) {
		return pbt.Fail("the %d bytes the collector read of the first connection are not a prefix of the %d-byte reference frame", len(bufs[0]), len(bigFrame))
	}
	whole := 0
	for ci := 1; ci < len(bufs); ci++ {
		b := bufs[ci]
		off := 0
		for off < len(b) {
			if len(b)-off < 22 || b[off] != 10 || b[off+1] != 0 {
				return pbt.Fail("connection %d (opened after the collector had reset the first one %d bytes into a %d-byte frame): offset %d does not start a frame: %x… (a frame starts with source 10, version 0, project code, license hash, length)", ci, c.Cut, len(bigFrame), off, clip(b, off))
			}
			n := int(int32(uint32(b[off+18])<<24 | uint32(b[off+19])<<16 | uint32(b[off+20])<<8 | uint32(b[off+21])))
			if n < 0 || off+22+n > len(b) {
				return pbt.Fail("connection %d: the frame at offset %d announces %d payload bytes, %d follow (the client has closed the connection)", ci, off, n, len(b)-off-22)
			}
			if _, ok := frames[string(b[off:off+22+n])]; !ok {
				return pbt.Fail("connection %d: the frame at offset %d (%d payload bytes) is not the reference frame of any pack that was sent", ci, off, n)
			}
			whole++
			off += 22 + n
		}
	}
	return &pbt.Result{NT: len(bufs) > 1 && whole > 0, Classes: []string{fmt.Sprintf("connections=%d", len(bufs)), fmt.Sprintf("send-errors=%d", sendErrs), fmt.Sprintf("whole-frames-after-the-reset=%d", whole)}}
}

var specTorn = pbt.Register(pbt.Spec[TornCase]{
	Prop: "C05", Name: "frames-after-a-torn-frame",
	Rule:  "a log-sink pack of 2.2-6 MB (larger than the client's 2 MiB write buffer) is sent; the collector resets the connection after reading 22 B .. 1.5 MB of its frame; 1-4 further packs (0 .. 300 KB) are offered until the client takes them; the client is closed and the collector reads every connection to its end; the first connection carried a prefix of the reference frame, every later connection consists of whole reference frames of packs that were sent, starting at offset 0; non-trivial = at least one whole frame arrived on a later connection; distinct by case",
	Quick: 12, Thorough: 400,
	Draw: func(t *rapid.T) TornCase {
		return TornCase{Size: rapid.SampledFrom([]int{2200000, 2500000, 4200000, 6000000}).Draw(t, "size"),
			Cut:   rapid.SampledFrom([]int{22, 1000, 65536, 300000, 1000000, 1500000}).Draw(t, "cut"),
			After: rapid.SliceOfN(rapid.SampledFrom([]int{0, 100, 5000, 70000, 300000}), 1, 4).Draw(t, "after")}
	},
	Run: runTorn,
})

func TestFramesAfterTornFrame(t *testing.T) {
	specTorn.RunCase(t, TornCase{Size: 2500000, Cut: 65536, After: []int{100, 5000}})
	specTorn.Check(t)
}
