// C05 Bytes on the wire conform to the collector protocol layout.
package c05

import (
	"bytes"
	"encoding/json"
	"fmt"
	"io"
	"math"
	"net"
	"os"
	"reflect"
	"testing"
	"time"

	"github.com/whatap/golib/lang"
	"github.com/whatap/golib/lang/pack"
	wio "github.com/whatap/golib/io"
	"github.com/whatap/golib/lang/value"
	wnet "github.com/whatap/golib/net"
	"github.com/whatap/golib/net/oneway"
	"github.com/whatap/golib/util/hmap"
	"pgregory.net/rapid"
	"verif/gen"
	"verif/gpack"
	"verif/gval"
	"verif/pbt"
	"verif/ref"
	"verif/rfl"
)

func TestMain(m *testing.M)   { pbt.Main(m, "C05") }
func TestReplay(t *testing.T) { pbt.Replay(t) }

var bodyTypes = []string{"TagCountPack", "LogSinkPack", "TextPack", "ParamPack", "EventPack", "ZipPack", "HitMapPack1", "CounterPack1"}

func hdr(p pack.Pack) ref.Header {
	ap := reflect.ValueOf(p).Elem().FieldByName("AbstractPack")
	return ref.Header{Pcode: ap.FieldByName("Pcode").Int(), Oid: int32(ap.FieldByName("Oid").Int()), Okind: int32(ap.FieldByName("Okind").Int()),
		Onode: int32(ap.FieldByName("Onode").Int()), Time: ap.FieldByName("Time").Int()}
}

func mapView(m *value.MapValue) *ref.V {
	if m == nil {
		return nil
	}
	v, err := gval.FromGolib(m)
	if err != nil {
		panic(err)
	}
	return v
}

func f32(f float32) uint32 { return math.Float32bits(f) }

func meters(m *hmap.IntKeyLinkedMap) *[]ref.Meter {
	if m == nil {
		return nil
	}
	out := []ref.Meter{}
	en := m.Entries()
	for en.HasMoreElements() {
		e := en.NextElement().(*hmap.IntKeyLinkedEntry)
		x := ref.Meter{Key: e.GetKey()}
		switch v := e.GetValue().(type) {
		case *pack.TxMeter:
			x.Time, x.Count, x.Error, x.Actx = v.Time, v.Count, v.Error, v.Actx
		case *pack.SqlMeter:
			x.Time, x.Count, x.Error, x.Actx, x.FetchCount, x.FetchTime = v.Time, v.Count, v.Error, v.Actx, v.FetchCount, v.FetchTime
		case *pack.HttpcMeter:
			x.Time, x.Count, x.Error, x.Actx = v.Time, v.Count, v.Error, v.Actx
		}
		out = append(out, x)
	}
	return &out
}

func linkedMeters(m *hmap.LinkedMap) *[]ref.Meter {
	if m == nil {
		return nil
	}
	out := []ref.Meter{}
	en := m.Entries()
	for en.HasMoreElements() {
		e := en.NextElement().(*hmap.LinkedEntry)
		v := e.GetValue().(*pack.TxMeter)
		x := ref.Meter{Time: v.Time, Count: v.Count, Error: v.Error, Actx: v.Actx}
		switch k := e.GetKey().(type) {
		case *lang.PKIND:
			x.Pcode, x.Sub = k.PCode, k.OKind
		case *lang.POID:
			x.Pcode, x.Sub = k.PCode, k.Oid
		}
		out = append(out, x)
	}
	return &out
}

func intIntPairs(m *hmap.IntIntMap) [][2]int32 {
	var out [][2]int32
	en := m.Entries()
	for en.HasMoreElements() {
		e := en.NextElement().(*hmap.IntIntEntry)
		out = append(out, [2]int32{e.GetKey(), e.GetValue()})
	}
	return out
}

// refBody computes the expected body of p from a view taken through exported fields and public accessors only.
// It must be called BEFORE golib's Write (which fills in the tag hash and appends the reserved event attributes).
func refBody(p pack.Pack, textRecs []ref.TextRec) []byte {
	h := hdr(p)
	switch x := p.(type) {
	case *pack.TagCountPack:
		return ref.TagCountBody(h, x.Category, x.GetTagHash(), mapView(x.Tags), mapView(x.Data))
	case *pack.LogSinkPack:
		return ref.LogSinkBody(h, x.Category, x.TagHash, mapView(x.Tags), x.Line, x.Content, mapView(x.Fields))
	case *pack.TextPack:
		return ref.TextBody(h, textRecs)
	case *pack.ParamPack:
		tbl := &ref.V{T: ref.TMap}
		keys := x.Keys()
		for keys.HasMoreElements() {
			k := keys.NextString()
			v, err := gval.FromGolib(x.Get(k))
			if err != nil {
				panic(err)
			}
			tbl.K = append(tbl.K, gen.Hex([]byte(k)))
			tbl.L = append(tbl.L, v)
		}
		return ref.ParamBody(h, x.Id, x.Request, x.Response, tbl)
	case *pack.EventPack:
		var attrs []ref.KV
		en := x.Attr.Entries()
		for en.HasMoreElements() {
			e := en.NextElement().(*hmap.StringKeyLinkedEntry)
			attrs = append(attrs, ref.KV{K: e.GetKey(), V: e.GetValue().(string)})
		}
		// the reserved attributes are put into the attribute table: a key that is already there (the object was
		// encoded or decoded before) keeps its place and gets the current value, a new one is appended
		put := func(k, v string) {
			for i := range attrs {
				if attrs[i].K == k {
					attrs[i].V = v
					return
				}
			}
			attrs = append(attrs, ref.KV{K: k, V: v})
		}
		if x.Uuid != "" {
			put("_uuid_", x.Uuid)
		} else {
			// no uuid: the attribute is absent, also when an earlier send of the same object had one (F50)
			for i := range attrs {
				if attrs[i].K == "_uuid_" {
					attrs = append(attrs[:i], attrs[i+1:]...)
					break
				}
			}
		}
		esc := "false"
		if x.Escalation {
			esc = "true"
		}
		put("_esca_", esc)
		put("_status_", fmt.Sprint(x.Status))
		put("_otype_", fmt.Sprint(x.Otype))
		return ref.EventBody(h, x.Level, x.Title, x.Message, attrs)
	case *pack.ZipPack:
		return ref.ZipBody(h, x.Status, int64(x.RecordCount), x.Records)
	case *pack.HitMapPack1:
		return ref.HitMapBody(h, x.Hit, x.Error)
	case *pack.CounterPack1:
		c := &ref.Counter{H: h, Duration: x.Duration, Cputime: x.Cputime, HeapTot: x.HeapTot, HeapUse: x.HeapUse, HeapPerm: x.HeapPerm,
			HeapPendingFinalization: x.HeapPendingFinalization, GcCount: x.GcCount, GcTime: x.GcTime, ServiceCount: x.ServiceCount, ServiceError: x.ServiceError,
			ServiceTime: x.ServiceTime, SqlCount: x.SqlCount, SqlError: x.SqlError, SqlTime: x.SqlTime, SqlFetchCount: x.SqlFetchCount, SqlFetchTime: x.SqlFetchTime,
			HttpcCount: x.HttpcCount, HttpcError: x.HttpcError, HttpcTime: x.HttpcTime, ActSvcCount: x.ActSvcCount, ActSvcSlice: x.ActSvcSlice,
			Cpu: f32(x.Cpu), CpuSys: f32(x.CpuSys), CpuUsr: f32(x.CpuUsr), CpuWait: f32(x.CpuWait), CpuSteal: f32(x.CpuSteal), CpuIrq: f32(x.CpuIrq), CpuProc: f32(x.CpuProc),
			CpuCores: x.CpuCores, Mem: f32(x.Mem), Swap: f32(x.Swap), Disk: f32(x.Disk), ThreadTotalStarted: x.ThreadTotalStarted, ThreadCount: x.ThreadCount,
			ThreadDaemon: x.ThreadDaemon, ThreadPeakCount: x.ThreadPeakCount, ProcFd: x.ProcFd, Tps: f32(x.Tps), RespTime: x.RespTime, ApType: x.ApType,
			Starttime: x.Starttime, PackDropped: x.PackDropped, HostIp: x.HostIp, MacHash: x.MacHash, Pid: x.Pid, ActiveStat: x.ActiveStat,
			ThreadPoolActiveCount: x.ThreadPoolActiveCount, ThreadPoolQueueSize: x.ThreadPoolQueueSize, ContainerKey: x.ContainerKey,
			TxDbcTime: f32(x.TxDbcTime), TxSqlTime: f32(x.TxSqlTime), TxHttpcTime: f32(x.TxHttpcTime), ApdexSatisfied: x.ApdexSatisfied, ApdexTolerated: x.ApdexTolerated,
			ArrivalRate: f32(x.ArrivalRate), GcOldgenCount: x.GcOldgenCount, Version: x.Version, HeapMax: x.HeapMax, ProcFdMax: x.ProcFdMax, Metering: f32(x.Metering),
			ApdexTotal: x.ApdexTotal, Resp90: x.Resp90, Resp95: x.Resp95, TimeSqrSum: x.TimeSqrSum}
		if x.DbNumActive != nil && x.DbNumIdle != nil {
			c.HasDbNum = true
			c.DbNumActive, c.DbNumIdle = intIntPairs(x.DbNumActive), intIntPairs(x.DbNumIdle)
		}
		if x.Netstat != nil {
			c.Netstat = &[4]int32{x.Netstat.Est, x.Netstat.FinW, x.Netstat.CloW, x.Netstat.TimW}
		}
		if x.Websocket != nil {
			c.Websocket = &[3]int64{int64(x.Websocket.Count), x.Websocket.In, x.Websocket.Out}
		}
		if x.Extra != nil {
			v, err := gval.FromGolib(x.Extra)
			if err != nil {
				panic(err)
			}
			c.Extra = v
		}
		c.TxcallerOidMeter, c.SqlMeter, c.HttpcMeter = meters(x.TxcallerOidMeter), meters(x.SqlMeter), meters(x.HttpcMeter)
		c.TxcallerGroupMeter, c.TxcallerPOidMeter = linkedMeters(x.TxcallerGroupMeter), linkedMeters(x.TxcallerPOidMeter)
		if x.TxcallerUnknown != nil {
			c.TxcallerUnknown = &ref.Meter{Time: x.TxcallerUnknown.Time, Count: x.TxcallerUnknown.Count, Error: x.TxcallerUnknown.Error, Actx: x.TxcallerUnknown.Actx}
		}
		return ref.CounterBody(c)
	}
	panic(fmt.Sprintf("no reference body for %T", p))
}

// build creates the pack of the case; text packs are built from reference records through the public API.
func build(c gpack.Case) (pack.Pack, []ref.TextRec) {
	s := c.Stream()
	if c.Type == "TextPack" {
		p := pack.NewTextPack()
		p.SetPCODE(s.Int64())
		p.SetOID(int32(s.Int64()))
		p.SetTime(s.Int64())
		if s.Bool() {
			p.SetOKIND(int32(s.Int64()))
			p.SetONODE(int32(s.Int64()))
		}
		var recs []ref.TextRec
		n := s.LenSmall(6)
		var batch []pack.TextRec
		for i := 0; i < n; i++ {
			r := ref.TextRec{Div: byte(s.Int64()), Hash: int32(s.Int64()), Text: s.String()}
			if s.Intn(4) == 0 {
				r.Div, r.Hash = 1, 777 // the same (div, hash) may come with another text
			}
			recs = append(recs, r)
			if i%2 == 0 {
				p.AddText(pack.TextRec{Div: r.Div, Hash: r.Hash, Text: r.Text})
			} else {
				batch = append(batch, pack.TextRec{Div: r.Div, Hash: r.Hash, Text: r.Text})
				p.AddTexts(batch)
				batch = nil
			}
		}
		return p, recs
	}
	return gpack.ByName[c.Type].Build(s, 0), nil
}

func optionalSections(p pack.Pack) int {
	n := 0
	switch x := p.(type) {
	case *pack.CounterPack1:
		for _, b := range []bool{x.DbNumActive != nil, x.Netstat != nil, x.Websocket != nil, x.Extra != nil, x.TxcallerOidMeter != nil, x.SqlMeter != nil, x.HttpcMeter != nil, x.TxcallerGroupMeter != nil, x.TxcallerUnknown != nil} {
			if b {
				n++
			}
		}
	case *pack.TagCountPack:
		n = x.Tags.Size() + x.Data.Size()
	case *pack.LogSinkPack:
		n = x.Tags.Size()
		if x.Fields != nil {
			n += x.Fields.Size()
		}
	case *pack.EventPack:
		n = x.Attr.Size()
	case *pack.ParamPack:
		k := x.Keys()
		for k.HasMoreElements() {
			k.NextString()
			n++
		}
	case *pack.ZipPack:
		n = len(x.Records)
	case *pack.HitMapPack1:
		n = 1
	}
	return n
}

func runBody(c gpack.Case) *pbt.Result {
	gpack.ResetAux()
	p, recs := build(c)
	if tr := recs; c.Type == "TextPack" {
		_ = tr
	}
	nOpt := optionalSections(p)
	if c.Type == "TextPack" {
		nOpt = len(recs)
	}
	w := ref.NewW()
	w.I16(p.GetPackType())
	w.Raw(refBody(p, recs))
	want := w.B
	got := pack.ToBytesPack(p)
	if !bytes.Equal(got, want) {
		k := 0
		for k < len(got) && k < len(want) && got[k] == want[k] {
			k++
		}
		return pbt.Fail("%s: ToBytesPack differs from the reference encoder of the protocol layout at offset %d (golib %d bytes …%x, reference %d bytes …%x)", c.Type, k, len(got), clip(got, k), len(want), clip(want, k))
	}
	// an agent process also decodes (control packs, its own packs in tests and relays); what it decoded must not show up in
	// what it encodes afterwards: the pack is decoded here, and the packs of the following cases are encoded after that
	func() {
		defer func() { recover() }() // whether decoding works is C03's business
		pack.ToPack(append([]byte(nil), got...))
	}()
	// values constructed after that are what their constructor was asked for (the reference encoding of the literal)
	for _, pr := range []struct {
		v    value.Value
		want *ref.V
	}{{value.NewBoolValue(false), &ref.V{T: ref.TBool, I: 0}}, {value.NewBoolValue(true), &ref.V{T: ref.TBool, I: 1}},
		{value.NewDecimalValue(0), &ref.V{T: ref.TDecimal, I: 0}}, {value.NewTextValue(""), &ref.V{T: ref.TText}}, {value.NewNullValue(), &ref.V{T: ref.TNull}}} {
		o := wio.NewDataOutputX()
		value.WriteValue(o, pr.v)
		if exp := ref.ValueBytes(pr.want); !bytes.Equal(o.ToByteArray(), exp) {
			return pbt.Fail("after a %s was decoded, a freshly constructed value (type code %d, constructor argument %d) encodes as %x; the protocol encoding of that literal is %x", c.Type, pr.want.T, pr.want.I, o.ToByteArray(), exp)
		}
	}
	if again := pack.ToBytesPack(p); !bytes.Equal(again, want) {
		return pbt.Fail("%s: after its own encoding was decoded (into another object), encoding the pack again gives other bytes than the reference (%d vs %d bytes)", c.Type, len(again), len(want))
	}
	hf := "header=short"
	if h := hdr(p); h.Okind|h.Onode != 0 {
		hf = "header=marker9"
	}
	return &pbt.Result{NT: nOpt > 0, Classes: []string{"type=" + c.Type, c.Type + "/" + hf}, Key: got}
}

func clip(b []byte, k int) []byte {
	if k > len(b) {
		k = len(b)
	}
	e := k + 10
	if e > len(b) {
		e = len(b)
	}
	return b[k:e]
}

var specBody = pbt.Register(pbt.Spec[gpack.Case]{
	Prop: "C05", Name: "body-vs-reference",
	Rule:  "packs of the eight covered types (tag-count, log-sink, text, parameter, event, zip, hit-map, counter) with every optional section present/absent, both header forms, project codes in every decimal class; expected bytes = 2-byte type + body from an independent encoder of the protocol layout fed by a view taken through exported fields and public accessors; every encoding is then decoded, so that each pack is encoded in a process that has decoded the packs before it; non-trivial = at least one optional section / map entry / record present; distinct by bytes",
	Quick: 3200, Thorough: 160000,
	Draw: func(t *rapid.T) gpack.Case {
		c := gpack.Case{Type: rapid.SampledFrom(bodyTypes).Draw(t, "type"), Seed: rapid.Uint64().Draw(t, "seed")}
		c.Len = rapid.SampledFrom([]int{0, 5, 40, 400, 2500, 2500}).Draw(t, "len")
		c.Prefix = rapid.SliceOfN(rapid.Uint64(), 0, 10).Draw(t, "prefix")
		return c
	},
	Run: runBody,
})

func TestBodyVsReference(t *testing.T) { specBody.Check(t) }

func TestEveryBodyType(t *testing.T) {
	for _, name := range bodyTypes {
		for seed := uint64(1); seed <= uint64(pbt.Pick(15, 300)); seed++ {
			for _, n := range []int{0, 60, 3000} {
				specBody.RunCase(t, gpack.Case{Type: name, Seed: seed*104729 + uint64(pbt.Seed()), Len: n})
			}
		}
	}
}

// ---- frames on a real TCP connection ----------------------------------------------

type FrameCase struct {
	Pack     gpack.Case `json:"pack"`
	License  string     `json:"license"`            // client default (hex)
	Override string     `json:"override,omitempty"` // per-send license (hex); empty: none
	Pcode    int64      `json:"client_pcode"`       // the client's own project code (must not be used for the frame)
	// further per-send options, which the frame layout has no place for: the frame must not depend on them
	Secure   *uint8 `json:"secure,omitempty"`
	Priority *bool  `json:"priority,omitempty"`
}

var licenses = []string{"", "x", "abcdef-0123456789-license", "라이선스-키", "  padded  "}

func runFrame(c FrameCase) *pbt.Result {
	gpack.ResetAux()
	p, recs := build(c.Pack)
	body := refBody(p, recs)
	lic := string(gen.UnHex(c.License))
	over := string(gen.UnHex(c.Override))
	eff := lic
	if over != "" {
		eff = over
	}
	w := ref.NewW()
	w.I16(p.GetPackType())
	w.Raw(body)
	want := ref.Frame(10, 0, p.GetPCODE(), ref.Hash64([]byte(eff)), w.B)

	ln, err := listenPrivate()
	if err != nil {
		return pbt.Fail("harness cannot listen on loopback: %v", err)
	}
	defer ln.Close()
	type rcv struct {
		b   []byte
		err error
	}
	ch := make(chan rcv, 1)
	go func() {
		conn, err := ln.Accept()
		if err != nil {
			ch <- rcv{nil, err}
			return
		}
		defer conn.Close()
		conn.SetReadDeadline(time.Now().Add(30 * time.Second))
		buf := make([]byte, len(want))
		_, err = io.ReadFull(conn, buf)
		if err != nil {
			ch <- rcv{buf, err}
			return
		}
		// nothing may follow the frame
		conn.SetReadDeadline(time.Now().Add(30 * time.Millisecond))
		extra := make([]byte, 1)
		n, _ := conn.Read(extra)
		if n > 0 {
			ch <- rcv{buf, fmt.Errorf("bytes follow the frame")}
			return
		}
		ch <- rcv{buf, nil}
	}()
	cl := oneway.NewForVerif(oneway.WithServers([]string{ln.Addr().String()}), oneway.WithLicense(lic), oneway.WithPcode(c.Pcode))
	defer cl.Close()
	var sendOpts []wnet.TcpClientOption
	if c.Secure != nil {
		sendOpts = append(sendOpts, wnet.WithSecureFlag(*c.Secure))
	}
	if over != "" {
		sendOpts = append(sendOpts, wnet.WithLicense(over))
	}
	if c.Priority != nil {
		sendOpts = append(sendOpts, wnet.WithPriority(*c.Priority))
	}
	serr := cl.Send(p, sendOpts...)
	if serr != nil {
		return pbt.Fail("Send on a healthy loopback connection returned %v", serr)
	}
	r := <-ch
	if r.err != nil {
		return pbt.Fail("peer did not receive exactly the %d-byte reference frame: %v", len(want), r.err)
	}
	if !bytes.Equal(r.b, want) {
		k := 0
		for k < len(want) && r.b[k] == want[k] {
			k++
		}
		return pbt.Fail("frame differs from the reference at offset %d: got …%x want …%x (source/version/pcode/license-hash/length are bytes 0..21)", k, clip(r.b, k), clip(want, k))
	}
	cl2 := "license=default"
	if over != "" {
		cl2 = "license=per-send"
	}
	classes := []string{"type=" + c.Pack.Type, cl2}
	if c.Secure != nil {
		classes = append(classes, "option=secure-flag")
	}
	if c.Priority != nil {
		classes = append(classes, "option=priority")
	}
	return &pbt.Result{NT: true, Classes: classes, Key: append(want, byte(len(sendOpts)))}
}

var specFrame = pbt.Register(pbt.Spec[FrameCase]{
	Prop: "C05", Name: "frame-on-tcp",
	Rule:  "a pack of a covered type sent by a fresh one-way client (direct mode) to a harness-owned loopback listener, with and without a per-send license, secure flag and priority option (the layout has no place for the last two: the frame must not depend on them); bytes received must equal 10, 0, pack's project code, 64-bit hash of the effective license text, 4-byte length, type, reference body - and nothing more; every case is non-trivial; distinct by frame bytes",
	Quick: 240, Thorough: 6000,
	Draw: func(t *rapid.T) FrameCase {
		pc := gpack.Case{Type: rapid.SampledFrom(bodyTypes).Draw(t, "type"), Seed: rapid.Uint64().Draw(t, "seed"), Len: rapid.SampledFrom([]int{0, 30, 800}).Draw(t, "len")}
		lic := rapid.OneOf(rapid.SampledFrom(licenses), rapid.StringN(0, 40, 1024)).Draw(t, "license")
		over := ""
		if rapid.Bool().Draw(t, "override") {
			over = rapid.OneOf(rapid.SampledFrom(licenses[1:]), rapid.StringN(1, 20, 200)).Draw(t, "over")
		}
		fc := FrameCase{Pack: pc, License: gen.Hex([]byte(lic)), Override: gen.Hex([]byte(over)), Pcode: gen.Int64().Draw(t, "cpcode")}
		if rapid.IntRange(0, 2).Draw(t, "secure?") == 0 {
			b := rapid.SampledFrom([]uint8{0, 1, 2, 0x10, 0x80, 0xff}).Draw(t, "secure")
			fc.Secure = &b
		}
		if rapid.IntRange(0, 3).Draw(t, "priority?") == 0 {
			b := rapid.Bool().Draw(t, "priority")
			fc.Priority = &b
		}
		return fc
	},
	Run: runFrame,
})

func TestFrameOnTCP(t *testing.T) { specFrame.Check(t) }

// ---- frozen wire samples -----------------------------------------------------------

type golden struct {
	Type string `json:"type"`
	Hex  string `json:"hex"` // 2-byte type + body, produced by the reference encoder and reviewed against the layout
}

const goldenPath = "/verif/golden/wire_samples.json"

type GoldenCase struct {
	Index int    `json:"index"`
	Type  string `json:"type"`
	Hex   string `json:"hex"`
}

var specGolden = pbt.Register(pbt.Spec[GoldenCase]{
	Prop: "C05", Name: "frozen-samples",
	Rule: "frozen hex samples (written once by the reference encoder, committed under /verif/golden) must still decode with golib, re-encode to the same bytes, and agree with today's reference encoder - so that a consistent change of golib AND the reference is not mistaken for conformance; every sample is non-trivial; distinct by bytes",
	Run: func(c GoldenCase) *pbt.Result {
		b := gen.UnHex(c.Hex)
		p := pack.ToPack(append([]byte(nil), b...))
		if p == nil || reflect.TypeOf(p).Elem().Name() != c.Type {
			return pbt.Fail("frozen sample %d decodes as %T, expected %s", c.Index, p, c.Type)
		}
		// reference view of the decoded pack (text packs: records read back through the unexported slice are not needed — re-encode instead)
		re := pack.ToBytesPack(p)
		if !bytes.Equal(re, b) {
			return pbt.Fail("frozen %s sample %d: golib re-encodes it to different bytes", c.Type, c.Index)
		}
		if c.Type != "TextPack" {
			q := pack.ToPack(append([]byte(nil), b...))
			w := ref.NewW()
			w.I16(q.GetPackType())
			if ep, ok := q.(*pack.EventPack); ok {
				_ = ep
			}
			w.Raw(refBody(q, nil))
			if !bytes.Equal(w.B, b) {
				return pbt.Fail("frozen %s sample %d: today's reference encoder produces different bytes from the decoded view", c.Type, c.Index)
			}
		}
		return &pbt.Result{NT: true, Classes: []string{"type=" + c.Type}, Key: b}
	},
})

func TestFrozenSamples(t *testing.T) {
	if os.Getenv("VERIF_REGEN_GOLDEN") == "1" {
		var out []golden
		for _, name := range bodyTypes {
			kept := 0
			for seed := uint64(1); kept < 6; seed++ {
				gpack.ResetAux()
				p, recs := build(gpack.Case{Type: name, Seed: seed * 7907, Len: []int{0, 50, 3000}[seed%3]})
				w := ref.NewW()
				w.I16(p.GetPackType())
				w.Raw(refBody(p, recs))
				// samples falling into the open finding F38 (entry order of the unordered DB-pool maps) are not frozen
				if c1, ok := p.(*pack.CounterPack1); ok && c1.DbNumActive != nil && (c1.DbNumActive.Size() >= 2 || c1.DbNumIdle.Size() >= 2) {
					continue
				}
				out = append(out, golden{Type: name, Hex: gen.Hex(w.B)})
				kept++
			}
		}
		b, _ := json.MarshalIndent(out, "", " ")
		if err := os.WriteFile(goldenPath, b, 0o644); err != nil {
			t.Fatal(err)
		}
		t.Logf("wrote %d frozen samples", len(out))
		return
	}
	b, err := os.ReadFile(goldenPath)
	if err != nil {
		t.Fatalf("frozen samples missing: %v", err)
	}
	var gs []golden
	if err := json.Unmarshal(b, &gs); err != nil {
		t.Fatal(err)
	}
	if len(gs) < 40 {
		t.Fatalf("only %d frozen samples", len(gs))
	}
	for i, g := range gs {
		specGolden.RunCase(t, GoldenCase{Index: i, Type: g.Type, Hex: g.Hex})
	}
}

var _ = rfl.Diff

// ---- several frames on one client, with the default license changing in between -----------------------

type SeqStep struct {
	Pack       gpack.Case `json:"pack"`
	SetLicense string     `json:"set_license,omitempty"` // hex; non-empty: the client's default license is changed before this send
	Override   string     `json:"override,omitempty"`    // hex; per-send license
	// Bad: before this step the client is given a pack that cannot be encoded (log record without a tag map: its Write
	// fails half way). The send fails; nothing of it may reach the wire
	Bad bool `json:"bad,omitempty"`
}

type SeqCase struct {
	License string    `json:"license"` // initial default (hex)
	Steps   []SeqStep `json:"steps"`
}

func runFrameSeq(c SeqCase) *pbt.Result {
	ln, err := listenPrivate()
	if err != nil {
		return pbt.Fail("harness cannot listen on loopback: %v", err)
	}
	defer ln.Close()
	cur := string(gen.UnHex(c.License))
	cl := oneway.NewForVerif(oneway.WithServers([]string{ln.Addr().String()}), oneway.WithLicense(cur), oneway.WithPcode(5))
	defer cl.Close()
	var want []byte
	type rcv struct {
		b   []byte
		err error
	}
	connCh := make(chan net.Conn, 1)
	go func() {
		conn, err := ln.Accept()
		if err == nil {
			connCh <- conn
		}
	}()
	changes, bads := 0, 0
	for i, st := range c.Steps {
		if st.Bad {
			bp := pack.NewLogSinkPack()
			bp.Category, bp.Content, bp.Tags = "unencodable", "this record has no tag map", nil
			bads++
			returned, _ := pbt.WithTimeout(20*time.Second, func() { cl.Send(bp) })
			if !returned {
				return pbt.Fail("Send of a pack that cannot be encoded (before frame %d) did not return within 20 s", i)
			}
		}
		gpack.ResetAux()
		p, recs := build(st.Pack)
		body := refBody(p, recs)
		if st.SetLicense != "" {
			cur = string(gen.UnHex(st.SetLicense))
			cl.License = cur
			changes++
		}
		eff := cur
		var serr error
		if st.Override != "" {
			eff = string(gen.UnHex(st.Override))
			serr = cl.Send(p, wnet.WithLicense(eff))
		} else {
			serr = cl.Send(p)
		}
		if serr != nil {
			return pbt.Fail("send %d on a healthy loopback connection returned %v", i, serr)
		}
		w := ref.NewW()
		w.I16(p.GetPackType())
		w.Raw(body)
		want = append(want, ref.Frame(10, 0, p.GetPCODE(), ref.Hash64([]byte(eff)), w.B)...)
	}
	var conn net.Conn
	select {
	case conn = <-connCh:
	case <-time.After(20 * time.Second):
		return pbt.Fail("the client never connected")
	}
	defer conn.Close()
	conn.SetReadDeadline(time.Now().Add(30 * time.Second))
	got := make([]byte, len(want))
	if _, err := io.ReadFull(conn, got); err != nil {
		return pbt.Fail("peer received fewer than the %d bytes of the %d reference frames: %v", len(want), len(c.Steps), err)
	}
	if !bytes.Equal(got, want) {
		k := 0
		for k < len(want) && got[k] == want[k] {
			k++
		}
		// which frame?
		off, fi := 0, 0
		for fi = 0; fi < len(c.Steps); fi++ {
			n := 22 + int(int32(uint32(want[off+18])<<24|uint32(want[off+19])<<16|uint32(want[off+20])<<8|uint32(want[off+21])))
			if k < off+n {
				break
			}
			off += n
		}
		return pbt.Fail("frame %d of the sequence differs from the reference at byte %d of the frame (bytes 2..9 project code, 10..17 hash of the license in effect for that send, 18..21 length)", fi, k-off)
	}
	return &pbt.Result{NT: changes >= 1 && len(c.Steps) >= 2, Classes: []string{fmt.Sprintf("license-changes=%d", changes), fmt.Sprintf("frames=%d", len(c.Steps)), fmt.Sprintf("unencodable-packs-in-between=%d", bads)}, Key: want}
}

var specFrameSeq = pbt.Register(pbt.Spec[SeqCase]{
	Prop: "C05", Name: "frame-sequence",
	Rule:  "2-6 packs sent one after the other by ONE client over one connection, with the client's default license changed between sends in some steps and per-send licenses in others, and before one step in six a pack that cannot be encoded (its send fails, nothing of it may reach the wire); the byte stream received must be the concatenation of the reference frames, each carrying the hash of the license in effect for that send; non-trivial = at least one license change and two frames; distinct by stream bytes",
	Quick: 160, Thorough: 5000,
	Draw: func(t *rapid.T) SeqCase {
		lic := func(label string) string {
			return gen.Hex([]byte(rapid.OneOf(rapid.SampledFrom(licenses[1:]), rapid.StringN(1, 20, 100)).Draw(t, label)))
		}
		c := SeqCase{License: lic("license")}
		n := rapid.IntRange(2, 6).Draw(t, "n")
		for i := 0; i < n; i++ {
			st := SeqStep{Pack: gpack.Case{Type: rapid.SampledFrom(bodyTypes).Draw(t, "type"), Seed: rapid.Uint64().Draw(t, "seed"), Len: rapid.SampledFrom([]int{0, 30, 300}).Draw(t, "len")}}
			switch rapid.IntRange(0, 3).Draw(t, "kind") {
			case 0:
				st.SetLicense = lic("newdefault")
			case 1:
				st.Override = lic("override")
			}
			st.Bad = rapid.IntRange(0, 5).Draw(t, "bad") == 0
			c.Steps = append(c.Steps, st)
		}
		return c
	},
	Run: runFrameSeq,
})

func TestFrameSequence(t *testing.T) { specFrameSeq.Check(t) }
