package c04

// decode-depends-only-on-input: the UDP tracer packs are decoded into pooled objects. What a datagram
// decodes to must be a function of that datagram (type, version, bytes) alone: whatever was decoded into the
// recycled object before must not show up in it (data that is not in the input = fabricated data).
//
// Metamorphic relation: decode(B) after {decode(A), release} == decode(B) after {decode(A'), release}
// for two different earlier datagrams A, A' of the same type; and strict prefixes of B are refused.

import (
	"fmt"
	"reflect"
	"sort"
	"testing"

	"github.com/whatap/golib/lang/pack/udp"
	"pgregory.net/rapid"
	"verif/pbt"
	"verif/rfl"
)

type UdpCase struct {
	Type  uint8  `json:"type"`
	VerA  int32  `json:"ver_a"`
	VerB  int32  `json:"ver_b"`
	SeedA uint64 `json:"seed_a"`
	SeedX uint64 `json:"seed_x"` // the alternative earlier datagram A'
	SeedB uint64 `json:"seed_b"`
}

var udpTypes = []uint8{udp.TX_START, udp.TX_DB_CONN, udp.TX_SQL, udp.TX_HTTPC, udp.TX_ERROR, udp.TX_MSG, udp.TX_METHOD, udp.TX_SECURE_MSG,
	udp.TX_SQL_PARAM, udp.TX_PARAM, udp.ACTIVE_STACK_1, udp.ACTIVE_STACK, udp.DBCONN_POOL, udp.TX_END, udp.TX_START_END}

// udpView renders the exported scalar, string and slice fields of a pack (embedded structs included). Objects
// behind pointers (URLs, the parameter pack TX_PARAM builds, which is stamped with the current time) are rendered
// through their String method when they have one and are otherwise left out.
func udpView(v reflect.Value, prefix string, out map[string]string) {
	t := v.Type()
	for i := 0; i < t.NumField(); i++ {
		f := t.Field(i)
		if f.PkgPath != "" {
			continue
		}
		fv := v.Field(i)
		switch fv.Kind() {
		case reflect.Struct:
			udpView(fv, prefix+f.Name+".", out)
		case reflect.Ptr, reflect.Interface:
			if fv.IsNil() {
				out[prefix+f.Name] = "<nil>"
			} else if f.Name != "ParamPack" {
				if st, ok := fv.Interface().(fmt.Stringer); ok {
					out[prefix+f.Name] = st.String()
				}
			}
		case reflect.Map:
			out[prefix+f.Name] = fmt.Sprint(fv.Interface()) // fmt prints maps with sorted keys
		default:
			if (f.Name == "Index" || f.Name == "Parent") && fv.Kind() == reflect.Int32 && (fv.Int() == 0 || fv.Int() == -1) {
				// "no value": a freshly constructed pack says 0, a recycled one -1 (what Clear sets); formats that do
				// not carry the field leave it as they found it
				out[prefix+f.Name] = "unset"
				continue
			}
			out[prefix+f.Name] = fmt.Sprintf("%v", fv.Interface())
		}
	}
}

func viewDiff(a, b map[string]string) string {
	keys := make([]string, 0, len(a))
	for k := range a {
		keys = append(keys, k)
	}
	sort.Strings(keys)
	for _, k := range keys {
		va := a[k]
		if vb, ok := b[k]; !ok || va != vb {
			if len(va) > 60 {
				va = va[:60] + "…"
			}
			if len(vb) > 60 {
				vb = vb[:60] + "…"
			}
			return fmt.Sprintf("%s: %q vs %q", k, va, vb)
		}
	}
	for k := range b {
		if _, ok := a[k]; !ok {
			return k + ": present only after the other datagram"
		}
	}
	return ""
}

var udpVersions = []int32{10101, 10104, 10109, 10110, 20101, 20104, 30101, 30103, 40001, 50100, 50101}

// datagram builds a filled pack of the given type and version through the public constructor and returns its
// encoding; ok=false when the writer refuses the generated content.
func datagram(ty uint8, ver int32, seed uint64) (b []byte, ok bool) {
	defer func() {
		if recover() != nil {
			b, ok = nil, false
		}
	}()
	p := udp.CreatePack(ty, ver)
	if p == nil {
		return nil, false
	}
	rfl.Fill(p, rfl.NewStream(nil, seed, 200), &rfl.Opts{MaxSlice: 3})
	if f := reflect.ValueOf(p).Elem().FieldByName("Ver"); f.IsValid() && f.CanSet() {
		f.SetInt(int64(ver))
	}
	if f := reflect.ValueOf(p).Elem().FieldByName("Type"); f.IsValid() && f.CanSet() && f.Kind() == reflect.Uint8 {
		f.SetUint(uint64(ty))
	}
	b = append([]byte(nil), udp.ToBytesPack(p)...)
	udp.ClosePack(p)
	return b, true
}

func decodeCanon(ty uint8, ver int32, b []byte) (kv map[string]string, err interface{}) {
	defer func() { err = recover() }()
	p := udp.ToPack(ty, ver, b)
	if p == nil {
		panic("nil pack")
	}
	kv = map[string]string{}
	udpView(reflect.ValueOf(p).Elem(), "", kv)
	udp.ClosePack(p)
	return kv, nil
}

func runUdp(c UdpCase) *pbt.Result {
	bA, ok1 := datagram(c.Type, c.VerA, c.SeedA)
	bX, ok2 := datagram(c.Type, c.VerA, c.SeedX)
	bB, ok3 := datagram(c.Type, c.VerB, c.SeedB)
	if !ok1 || !ok2 || !ok3 {
		return &pbt.Result{Classes: []string{"skipped:writer-refused-generated-content"}}
	}
	results := make([]map[string]string, 2)
	for i, first := range [][]byte{bA, bX} {
		if _, err := decodeCanon(c.Type, c.VerA, first); err != nil {
			return &pbt.Result{Classes: []string{"skipped:earlier-datagram-does-not-decode"}}
		}
		kv, err := decodeCanon(c.Type, c.VerB, bB)
		if err != nil {
			return &pbt.Result{Classes: []string{"skipped:datagram-does-not-decode"}}
		}
		results[i] = kv
	}
	if d := viewDiff(results[0], results[1]); d != "" {
		return pbt.Fail("UDP pack type %d: the same %d-byte datagram (version %d) decodes differently depending on which datagram (version %d) was decoded and released before it: %s - the difference is not in its input", c.Type, len(bB), c.VerB, c.VerA, d)
	}
	// strict prefixes of B, decoded after a full datagram of the other version went through the pool
	refused, accepted := 0, 0
	full := results[0]
	// every offset for short datagrams, otherwise the first and last 12 and 24 spread over the rest
	cuts := map[int]bool{}
	for cut := 0; cut < len(bB); cut++ {
		if len(bB) <= 48 || cut < 12 || cut >= len(bB)-12 || cut%(len(bB)/24+1) == 0 {
			cuts[cut] = true
		}
	}
	for cut := 0; cut < len(bB); cut++ {
		if !cuts[cut] {
			continue
		}
		decodeCanon(c.Type, c.VerA, bA)
		kv, err := decodeCanon(c.Type, c.VerB, bB[:cut])
		if err != nil {
			refused++
			continue
		}
		accepted++
		// formats whose trailing fields are optional accept some prefixes; what they return must still be the
		// datagram's own content: equal to the full decode wherever the prefix covers it, never the earlier datagram's
		if kvX, err2 := func() (map[string]string, interface{}) {
			decodeCanon(c.Type, c.VerA, bX)
			return decodeCanon(c.Type, c.VerB, bB[:cut])
		}(); err2 == nil {
			if d := viewDiff(kv, kvX); d != "" {
				return pbt.Fail("UDP pack type %d: the %d-byte prefix of a %d-byte datagram (version %d) decodes differently depending on the datagram decoded before it: %s", c.Type, cut, len(bB), c.VerB, d)
			}
		}
	}
	_ = full
	cls := []string{fmt.Sprintf("type=%d", c.Type)}
	if c.VerA/10000 != c.VerB/10000 {
		cls = append(cls, "versions-of-different-agent-families")
	}
	return &pbt.Result{NT: c.VerA/10000 != c.VerB/10000, Classes: cls}
}

var specUdp = pbt.Register(pbt.Spec[UdpCase]{
	Prop: "C04", Name: "udp-decode-depends-only-on-input",
	Rule:  "a UDP tracer datagram B (15 pooled pack types x 11 versions of the five agent families, every field filled reflectively) is decoded through the pooled entry point ToPack after another datagram of the same type and another version was decoded and released - once after A, once after a different A'; the two results for B must be field-by-field equal (what B decodes to is a function of B), also for the strict prefixes of B that the format accepts (every offset up to 48 bytes, otherwise 48 offsets); non-trivial = A and B belong to different agent families; distinct by case",
	Quick: 2000, Thorough: 80000,
	Draw: func(t *rapid.T) UdpCase {
		return UdpCase{Type: rapid.SampledFrom(udpTypes).Draw(t, "type"), VerA: rapid.SampledFrom(udpVersions).Draw(t, "vera"), VerB: rapid.SampledFrom(udpVersions).Draw(t, "verb"),
			SeedA: rapid.Uint64().Draw(t, "sa"), SeedX: rapid.Uint64().Draw(t, "sx"), SeedB: rapid.Uint64().Draw(t, "sb")}
	},
	Run: runUdp,
})

func TestUdpDecodeDependsOnlyOnInput(t *testing.T) { specUdp.Check(t) }
