package c04

// unknown-type-codes-concurrent: a collector decodes what many agents send, on many goroutines. An unknown type code
// must be reported to the goroutine that met it (a recoverable panic, the library's convention) - it must not take the
// process down. The test binary re-executes itself; the child decodes unknown pack / value / step codes on 16
// goroutines at once.

import (
	"bytes"
	"fmt"
	"os"
	"os/exec"
	"strings"
	"sync"
	"sync/atomic"
	"testing"

	wio "github.com/whatap/golib/io"
	"github.com/whatap/golib/lang/pack"
	"github.com/whatap/golib/lang/step"
	"github.com/whatap/golib/lang/value"
	"verif/pbt"
	"verif/ref"
)

const unknownHelperEnv = "VERIF_C04_UNKNOWN_HELPER"

func unknownHelperMain() {
	knownVal := map[byte]bool{}
	for _, c := range ref.AllTypes {
		knownVal[c] = true
	}
	var unknownPacks []int16
	for i := 0; i < 65536 && len(unknownPacks) < 4000; i += 7 {
		if c := int16(uint16(i)); pack.CreatePack(c) == nil {
			unknownPacks = append(unknownPacks, c)
		}
	}
	var returned atomic.Int64
	var gate atomic.Int32
	var wg sync.WaitGroup
	pad := make([]byte, 32)
	for g := 0; g < 16; g++ {
		wg.Add(1)
		go func(g int) {
			defer wg.Done()
			for gate.Load() == 0 {
			}
			try := func(f func()) {
				defer func() {
					if recover() == nil {
						returned.Add(1)
					}
				}()
				f()
			}
			for i := 0; i < 3000; i++ {
				c := unknownPacks[(i*16+g)%len(unknownPacks)]
				try(func() { pack.ToPack(append([]byte{byte(uint16(c) >> 8), byte(c)}, pad...)) })
				b := byte(i*16 + g)
				if !knownVal[b] {
					try(func() { value.ReadValue(wio.NewDataInputX(append([]byte{b}, pad...))) })
				}
				if step.CreateStep(b) == nil {
					try(func() { step.ReadStep(wio.NewDataInputX(append([]byte{b}, pad...))) })
				}
			}
		}(g)
	}
	gate.Store(1)
	wg.Wait()
	if n := returned.Load(); n > 0 {
		fmt.Printf("UNKNOWN-RETURNED %d decodes of unknown type codes returned an object\n", n)
		os.Exit(3)
	}
	os.Exit(0)
}

var sweepUnknownConc = pbt.RegisterSweep(pbt.Sweep{Prop: "C04", Name: "unknown-type-codes-concurrent",
	Rule: "the test binary re-executes itself (2 quick / 10 thorough child processes per shard); the child decodes unknown pack, value and step type codes (followed by 32 zero bytes) on 16 goroutines at once, 3000 rounds each: every decode must report failure to its own goroutine (recoverable panic) - a child that dies of a fatal runtime error (a failure that cannot be recovered and takes every other decode down) or a decode that returns an object is a violation; every child process is a distinct non-trivial case",
	N:    uint64(pbt.Pick(2, 10)),
	Run: func(i uint64) (bool, error) {
		exe, err := os.Executable()
		if err != nil {
			return false, nil
		}
		cmd := exec.Command(exe, "-test.run=^$")
		cmd.Env = append(os.Environ(), unknownHelperEnv+"=1")
		var out bytes.Buffer
		cmd.Stdout, cmd.Stderr = &out, &out
		err = cmd.Run()
		if err == nil {
			return true, nil
		}
		text := out.String()
		first := text
		if k := strings.IndexByte(text, '\n'); k > 0 {
			first = text[:k]
		}
		if strings.Contains(text, "fatal error:") {
			return true, fmt.Errorf("child process %d: decoding unknown type codes on 16 goroutines killed the process: %s", i, first)
		}
		if strings.Contains(text, "UNKNOWN-RETURNED") {
			return true, fmt.Errorf("child process %d: %s", i, first)
		}
		return false, nil // the child could not run (resources): not a verdict
	},
	Show: func(i uint64) interface{} { return fmt.Sprintf("child process %d", i) }})

func TestUnknownTypeCodesConcurrent(t *testing.T) { sweepUnknownConc.Check(t, 1) }
