// C04 Decoders fail closed: no fabricated data, bounded memory on bad input.
package c04

import (
	"bytes"
	"fmt"
	"net"
	"os"
	"runtime"
	"runtime/metrics"
	"sort"
	"strings"
	"testing"
	"time"

	wio "github.com/whatap/golib/io"
	"github.com/whatap/golib/lang/pack"
	"github.com/whatap/golib/lang/service"
	"github.com/whatap/golib/lang/step"
	"github.com/whatap/golib/lang/value"
	"github.com/whatap/golib/util/hmap"
	wlist "github.com/whatap/golib/util/list"
	"pgregory.net/rapid"
	"verif/gen"
	"verif/gpack"
	"verif/gstep"
	"verif/gval"
	"verif/pbt"
	"verif/ref"
	"verif/rfl"
)

func TestMain(m *testing.M) {
	if os.Getenv(unknownHelperEnv) != "" {
		unknownHelperMain() // re-executed by unknown-type-codes-concurrent: never returns
	}
	pbt.Main(m, "C04")
}
func TestReplay(t *testing.T) { pbt.Replay(t) }

// Target is one decoder with a generator of valid encodings for it.
type Target struct {
	Name  string
	Build func(s *rfl.Stream) []byte // a valid encoding
	// Complete reports the strict prefixes that the format itself defines as complete messages
	// (a step stream cut at a step boundary is a shorter valid stream); nil: none.
	Complete func(m []byte) map[int]bool
	Decode   func(b []byte) // panics when decoding fails
	// ExpansionFactor relaxes the memory bound for decoders that decompress (documented weakness W).
	ExpansionFactor int
}

var targets []*Target
var targetByName = map[string]*Target{}

func addTarget(t *Target) {
	targets = append(targets, t)
	targetByName[t.Name] = t
}

// failsAgain runs a lazy accessor. When it fails, the same access is tried once more on the same object: it has
// to fail again (the object must not hand out, on a later access, what it could not decode on the first one). If the
// second access returns normally failsAgain returns normally too - the input then counts as accepted, which the
// truncation / corruption oracles report.
func failsAgain(access func()) {
	defer func() {
		if r := recover(); r != nil {
			second := true
			func() {
				defer func() {
					if recover() != nil {
						second = false
					}
				}()
				access()
			}()
			if !second {
				panic(r)
			}
		}
	}()
	access()
}

func encodePack(sp *gpack.Spec, p pack.Pack) []byte {
	if sp.Registered {
		return append([]byte(nil), pack.ToBytesPack(p)...)
	}
	o := wio.NewDataOutputX()
	p.Write(o)
	return append([]byte(nil), o.ToByteArray()...)
}

func init() {
	addTarget(&Target{Name: "value",
		Build: func(s *rfl.Stream) []byte { return ref.ValueBytes(gpack.SValue(s, 3)) },
		Decode: func(b []byte) {
			v := value.ReadValue(wio.NewDataInputX(b))
			if v == nil {
				panic("nil value")
			}
		}})
	addTarget(&Target{Name: "steps",
		Build: func(s *rfl.Stream) []byte {
			reg := gstep.Registered()
			n := 1 + s.LenSmall(7)
			var steps []step.Step
			for i := 0; i < n; i++ {
				steps = append(steps, gstep.ByName[reg[s.Intn(len(reg))]].Build(s).(step.Step))
			}
			return append([]byte(nil), step.ToBytesStep(steps)...)
		},
		Decode: func(b []byte) {
			in := wio.NewDataInputX(b)
			for in.Available() > 0 {
				if step.ReadStep(in) == nil {
					panic("nil step")
				}
			}
		},
		Complete: func(m []byte) map[int]bool { // boundaries found by decoding the valid stream
			out := map[int]bool{0: true}
			in := wio.NewDataInputX(append([]byte(nil), m...))
			for in.Available() > 0 {
				step.ReadStep(in)
				out[len(m)-int(in.Available())] = true
			}
			return out
		}})
	for _, sp := range gstep.Specs {
		sp := sp
		if sp.Registered {
			continue
		}
		addTarget(&Target{Name: "step:" + sp.Name,
			Build: func(s *rfl.Stream) []byte {
				o := wio.NewDataOutputX()
				sp.Build(s).Write(o)
				return append([]byte(nil), o.ToByteArray()...)
			},
			Decode: func(b []byte) { sp.New().Read(wio.NewDataInputX(b)) }})
	}
	addTarget(&Target{Name: "txrecord",
		Build:  func(s *rfl.Stream) []byte { return append([]byte(nil), gpack.TxRecord(s).ToBytes()...) },
		Decode: func(b []byte) { service.NewTxRecord().ToObject(b) }})
	addTarget(&Target{Name: "service",
		Build: func(s *rfl.Stream) []byte {
			o := wio.NewDataOutputX()
			service.ToBytes(gstep.Services[s.Intn(len(gstep.Services))].Build(s), o)
			return append([]byte(nil), o.ToByteArray()...)
		},
		Decode: func(b []byte) {
			if service.ToObject(wio.NewDataInputX(b)) == nil {
				panic("nil service")
			}
		}})
	for _, sp := range gpack.Specs {
		sp := sp
		if strings.Contains(sp.Name, "/large") { // megabyte payloads: the per-offset fault enumeration would take minutes per message
			continue
		}
		t := &Target{Name: "pack:" + sp.Name,
			Build: func(s *rfl.Stream) []byte { return encodePack(sp, sp.Build(s, 0)) },
			Decode: func(b []byte) {
				var q pack.Pack
				if sp.Registered {
					q = pack.ToPack(b)
				} else {
					q = sp.New()
					q.Read(wio.NewDataInputX(b))
				}
				if q == nil {
					panic("nil pack")
				}
				// lazily decoded parts belong to the decode
				switch x := q.(type) {
				case *pack.StatGeneralPack:
					failsAgain(func() { x.GetDataTable() })
				}
			}}
		addTarget(t)
	}
	// record blobs and container payloads, decoded by GetRecords
	recordTargets := []struct {
		name string
		get  func(b []byte)
		from string
		blob func(p pack.Pack) []byte
	}{
		{"records:StatSqlPack", func(b []byte) { p := pack.NewStatSqlPack(); p.Records = b; failsAgain(func() { p.GetRecords() }) }, "StatSqlPack", func(p pack.Pack) []byte { return p.(*pack.StatSqlPack).Records }},
		{"records:StatHttpcPack", func(b []byte) { p := pack.NewStatHttpcPack(); p.Records = b; failsAgain(func() { p.GetRecords() }) }, "StatHttpcPack", func(p pack.Pack) []byte { return p.(*pack.StatHttpcPack).Records }},
		{"records:StatErrorPack", func(b []byte) { p := pack.NewStatErrorPack(); p.Records = b; failsAgain(func() { p.GetRecords() }) }, "StatErrorPack", func(p pack.Pack) []byte { return p.(*pack.StatErrorPack).Records }},
		{"records:StatTransactionPack", func(b []byte) {
			p := pack.NewStatTransactionPack()
			p.Records = b
			failsAgain(func() { p.GetRecords() })
		}, "StatTransactionPack", func(p pack.Pack) []byte { return p.(*pack.StatTransactionPack).Records }},
		{"records:StatTransactionPack1", func(b []byte) {
			p := pack.NewStatTransactionPack1()
			p.Records = b
			failsAgain(func() { p.GetRecords() })
		}, "StatTransactionPack1", func(p pack.Pack) []byte { return p.(*pack.StatTransactionPack1).Records }},
		{"records:SMDownCheckPack", func(b []byte) { p := pack.NewSMDownCheckPack(); p.Records = b; failsAgain(func() { p.GetRecords() }) }, "SMDownCheckPack", func(p pack.Pack) []byte { return p.(*pack.SMDownCheckPack).Records }},
		{"records:StatServicePack", func(b []byte) {
			in := wio.NewDataInputX(b)
			n := int(in.ReadShort())
			for i := 0; i < n; i++ {
				pack.ReadRec(in)
			}
		}, "StatServicePack", func(p pack.Pack) []byte { return p.(*pack.StatServicePack).Records }},
	}
	for _, rt := range recordTargets {
		rt := rt
		addTarget(&Target{Name: rt.name,
			Build: func(s *rfl.Stream) []byte {
				for {
					b := rt.blob(gpack.ByName[rt.from].Build(s, 0))
					if len(b) > 0 || s.Exhausted() {
						if len(b) == 0 {
							return []byte{0, 0}
						}
						return append([]byte(nil), b...)
					}
				}
			},
			Decode: rt.get})
	}
	// the column table of a general statistics pack travels as an inner block that is parsed on first access
	addTarget(&Target{Name: "table:StatGeneralPack",
		Build: func(s *rfl.Stream) []byte {
			for {
				p := gpack.ByName["StatGeneralPack"].Build(s, 0)
				q := pack.ToPack(pack.ToBytesPack(p)).(*pack.StatGeneralPack)
				b := rfl.Field(q, "dataBytes").Bytes()
				if len(b) > 2 || s.Exhausted() {
					if len(b) == 0 {
						return []byte{0, 0}
					}
					return append([]byte(nil), b...)
				}
			}
		},
		// an empty block is a complete message: a pack without columns carries no table at all
		Complete: func(m []byte) map[int]bool { return map[int]bool{0: true} },
		Decode: func(b []byte) {
			p := pack.NewStatGeneralPack()
			rfl.Field(p, "dataBytes").SetBytes(b)
			rfl.Field(p, "dataBytesSize").SetInt(int64(len(b)))
			failsAgain(func() { p.GetDataTable() })
		}})
	addTarget(&Target{Name: "records:ZipPack",
		Build: func(s *rfl.Stream) []byte {
			// payload preceded by its record count (decimal) so that Decode can rebuild the pack
			p := pack.NewZipPack()
			var inner []pack.Pack
			n := 1 + s.LenSmall(3)
			for i := 0; i < n; i++ {
				inner = append(inner, gpack.ByName[[]string{"TextPack", "LogSinkPack", "ParamPack", "HitMapPack1"}[s.Intn(4)]].Build(s, 1))
			}
			p.SetRecords(inner)
			w := ref.NewW()
			w.Dec(int64(p.RecordCount))
			w.Raw(p.Records)
			return w.B
		},
		Decode: func(b []byte) {
			in := wio.NewDataInputX(b)
			p := pack.NewZipPack()
			p.RecordCount = int(in.ReadDecimal())
			p.Records = in.ReadBytes(in.Available())
			p.GetRecords()
		}})
	// a compressed log-sink batch: the payload is inflated by GetRecords, not by ToPack (seed C04-s23: buffer sized from
	// the gzip trailer). The accessor answers a payload it cannot inflate or decode with fewer records than announced;
	// that is its way of reporting failure.
	addTarget(&Target{Name: "records:LogSinkZipPack(zipped)",
		Build: func(s *rfl.Stream) []byte {
			n := 1 + s.LenSmall(4)
			var raw []byte
			for i := 0; i < n; i++ {
				raw = append(raw, pack.ToBytesPack(gpack.ByName["LogSinkPack"].Build(s, 1))...)
			}
			p := pack.NewLogSinkZipPack()
			p.RecordCount = n
			p.SetRecords(raw, 0)
			if p.Status != pack.ZIPPED {
				panic("harness: batch was not compressed")
			}
			w := ref.NewW()
			w.Dec(int64(n))
			w.Raw(p.Records)
			return w.B
		},
		ExpansionFactor: 64,
		Decode: func(b []byte) {
			in := wio.NewDataInputX(b)
			p := pack.NewLogSinkZipPack()
			p.RecordCount = int(in.ReadDecimal())
			p.Records = in.ReadBytes(in.Available())
			p.Status = pack.ZIPPED
			if p.RecordCount < 0 || p.RecordCount > 1<<20 {
				panic("record count outside what the batch can hold")
			}
			if got := len(p.GetRecords()); got != p.RecordCount {
				panic(fmt.Sprintf("GetRecords returned %d of %d announced records", got, p.RecordCount))
			}
		}})
	addTarget(&Target{Name: "intintmap",
		Build: func(s *rfl.Stream) []byte {
			m := hmap.NewIntIntMapDefault()
			n := s.LenSmall(8)
			for i := 0; i < n; i++ {
				m.Put(int32(s.Int64()), int32(s.Int64()))
			}
			o := wio.NewDataOutputX()
			m.ToBytes(o)
			return append([]byte(nil), o.ToByteArray()...)
		},
		Decode: func(b []byte) { hmap.NewIntIntMapDefault().ToObject(wio.NewDataInputX(b)) }})
	for k, mk := range map[string]func() wlist.AnyList{
		"intlist":    func() wlist.AnyList { return wlist.NewIntListDefault() },
		"longlist":   func() wlist.AnyList { return wlist.NewLongListDefault() },
		"floatlist":  func() wlist.AnyList { return wlist.NewFloatListDefault() },
		"doublelist": func() wlist.AnyList { return wlist.NewDoubleListDefault() },
		"stringlist": func() wlist.AnyList { return wlist.NewStringListDefault() },
	} {
		mk := mk
		addTarget(&Target{Name: k,
			Build: func(s *rfl.Stream) []byte {
				l := mk()
				n := s.LenSmall(8)
				for i := 0; i < n; i++ {
					switch l.GetType() {
					case wlist.ANYLIST_STRING:
						l.AddString(s.String())
					case wlist.ANYLIST_FLOAT:
						l.AddFloat(s.Float32())
					case wlist.ANYLIST_DOUBLE:
						l.AddDouble(s.Float64())
					default:
						l.AddLong(int64(int32(s.Int64())))
					}
				}
				o := wio.NewDataOutputX()
				l.Write(o)
				return append([]byte(nil), o.ToByteArray()...)
			},
			Decode: func(b []byte) { mk().Read(wio.NewDataInputX(b)) }})
	}
	sort.SliceStable(targets, func(i, j int) bool { return targets[i].Name < targets[j].Name })
}

// ---- allocation meter -----------------------------------------------------------------

var allocSample = []metrics.Sample{{Name: "/gc/heap/allocs:bytes"}}

func allocated() uint64 {
	metrics.Read(allocSample)
	return allocSample[0].Value.Uint64()
}

const (
	allocBase    = 1 << 20 // 1 MiB
	allocPerByte = 2048
)

// tryDecode runs the decoder under recover and returns whether it panicked and the bytes allocated.
func tryDecode(t *Target, b []byte) (panicked bool, alloc uint64) {
	once := func(in []byte) (p bool, a uint64) {
		before := allocated()
		func() {
			defer func() {
				if recover() != nil {
					p = true
				}
			}()
			t.Decode(in)
		}()
		after := allocated()
		if after > before {
			a = after - before
		}
		return
	}
	keep := append([]byte(nil), b...)
	panicked, alloc = once(b)
	// the counter is process-wide: other goroutines of the harness (hang watchdog, the test framework) allocate too.
	// A decoder that over-allocates does so every time; noise does not: judge the smallest of up to three runs.
	for i := 0; i < 2 && alloc > allocBase+allocPerByte*uint64(len(keep)); i++ {
		if _, a := once(append([]byte(nil), keep...)); a < alloc {
			alloc = a
		}
	}
	return
}

// leastAlloc re-runs f (up to twice more) while the measured allocation exceeds bound and returns the smallest
// measurement (see tryDecode).
func leastAlloc(first, bound uint64, f func()) uint64 {
	for i := 0; i < 2 && first > bound; i++ {
		before := allocated()
		func() {
			defer func() { recover() }()
			f()
		}()
		if a := allocated() - before; a < first {
			first = a
		}
	}
	return first
}

// hostile byte patterns: large counts / lengths in every encoding the formats use.
var hostile = [][]byte{
	{0x04, 0x7f, 0xff, 0xff, 0xff},             // decimal 2^31-1
	{0x04, 0x08, 0x00, 0x00, 0x00},             // decimal 2^27
	{0x03, 0x7f, 0xff, 0xff},                   // decimal 2^23-1
	{0x08, 0x00, 0x00, 0x00, 0x01, 0, 0, 0, 0}, // decimal 2^32
	{0x08, 0x7f, 0xff, 0xff, 0xff, 0xff, 0xff, 0xff, 0xff},
	{0x04, 0xff, 0xff, 0xff, 0xff}, // decimal -1
	{0xfe, 0x7f, 0xff, 0xff, 0xff}, // blob length 2^31-1
	{0xfe, 0x01, 0x00, 0x00, 0x00}, // blob length 2^24
	{0xfe, 0xff, 0xff, 0xff, 0xff}, // blob length -1
	{0xff, 0xff, 0xff},             // blob length 65535
	{0x7f, 0xff},                   // i16 32767
	{0x7f, 0xff, 0xff, 0xff},       // i32 2^31-1
	{0x00, 0x10, 0x00, 0x00},       // i32 2^20
	{0xff},                         // u8 255
	{0x09},                         // marker / version byte
}

type Case struct {
	Target string   `json:"target"`
	Seed   uint64   `json:"seed"`
	Len    int      `json:"len"`
	Prefix []uint64 `json:"prefix,omitempty"`
}

var wd *pbt.Watchdog

type stats struct {
	decodes, hostilePanics, hostileReturns int
	maxRatio                               float64
}

var total stats

func run(c Case) *pbt.Result {
	t := targetByName[c.Target]
	if t == nil {
		return pbt.Fail("unknown target %q", c.Target)
	}
	gpack.ResetAux()
	m := t.Build(rfl.NewStream(c.Prefix, c.Seed, c.Len))
	pbt.Journal("C04", "truncation-and-hostile-fields", c)
	defer pbt.ClearJournal()
	if wd != nil {
		wd.Begin(c, "valid message")
		defer wd.End()
	}
	factor := uint64(1)
	if t.ExpansionFactor > 0 {
		factor = uint64(t.ExpansionFactor)
	}
	bound := func(n int) uint64 { return (allocBase + allocPerByte*uint64(n)) * factor }
	// the valid message itself decodes and stays within the bound (calibrates the constants)
	if p, a := tryDecode(t, append([]byte(nil), m...)); p {
		return pbt.Fail("%s: the valid %d-byte encoding does not decode (harness or codec defect): %x", c.Target, len(m), m[:min(len(m), 64)])
	} else if a > bound(len(m)) {
		return pbt.Fail("%s: decoding a valid %d-byte message allocated %d bytes (bound %d)", c.Target, len(m), a, bound(len(m)))
	}
	// (a) every strict prefix must be reported as a failure
	offsets := allOffsets(len(m))
	var complete map[int]bool
	if t.Complete != nil {
		complete = t.Complete(m)
	}
	for _, k := range offsets {
		if wd != nil {
			wd.Touch(fmt.Sprintf("prefix of %d/%d bytes", k, len(m)))
		}
		p, a := tryDecode(t, append([]byte{}, m[:k]...))
		total.decodes++
		if !p && !complete[k] {
			return pbt.Fail("%s: decoding the %d-byte strict prefix of a valid %d-byte encoding returned an object instead of reporting failure (message %x)", c.Target, k, len(m), m[:min(len(m), 96)])
		}
		if a > bound(k) {
			return pbt.Fail("%s: decoding a %d-byte prefix allocated %d bytes (bound %d)", c.Target, k, a, bound(k))
		}
	}
	// (b) a hostile length/count pattern written over, or inserted at, every offset: must terminate within the memory bound
	for _, k := range offsets {
		for hi, h := range hostile {
			for mode := 0; mode < 2; mode++ {
				var b []byte
				if mode == 0 { // overwrite
					b = append([]byte(nil), m...)
					copy(b[k:], h)
					if k+len(h) > len(b) {
						b = append(b[:k], h...)
					}
				} else { // insert
					b = append(append(append([]byte(nil), m[:k]...), h...), m[k:]...)
				}
				if wd != nil {
					wd.Touch(fmt.Sprintf("hostile pattern %d %s at offset %d of %d", hi, []string{"over", "inserted at"}[mode], k, len(m)))
				}
				p, a := tryDecode(t, b)
				total.decodes++
				if p {
					total.hostilePanics++
				} else {
					total.hostileReturns++
				}
				if r := float64(a) / float64(bound(len(b))); r > total.maxRatio {
					total.maxRatio = r
				}
				if a > bound(len(b)) {
					return pbt.Fail("%s: decoding %d corrupted bytes allocated %d bytes (bound %d = 1 MiB + 2048 x input): pattern %x %s offset %d of the valid message %x", c.Target, len(b), a, bound(len(b)), h, []string{"written over", "inserted at"}[mode], k, m[:min(len(m), 96)])
				}
			}
		}
	}
	return &pbt.Result{NT: len(m) >= 8, Classes: []string{"target=" + c.Target, "len=" + lenBucket(len(m))}, Key: append([]byte(c.Target+":"), m...)}
}

func min(a, b int) int {
	if a < b {
		return a
	}
	return b
}

func lenBucket(n int) string {
	switch {
	case n < 8:
		return "<8"
	case n < 64:
		return "8-63"
	case n < 512:
		return "64-511"
	}
	return ">=512"
}

// allOffsets: every offset when the message is short, otherwise the first and last 256 plus 256 evenly spread ones.
func allOffsets(n int) []int {
	if n <= 1024 {
		out := make([]int, n)
		for i := range out {
			out[i] = i
		}
		return out
	}
	seen := map[int]bool{}
	var out []int
	add := func(i int) {
		if i >= 0 && i < n && !seen[i] {
			seen[i] = true
			out = append(out, i)
		}
	}
	for i := 0; i < 256; i++ {
		add(i)
		add(n - 1 - i)
		add(i * n / 256)
	}
	sort.Ints(out)
	return out
}

func targetNames() []string {
	var out []string
	for _, t := range targets {
		out = append(out, t.Name)
	}
	return out
}

var specFaults = pbt.Register(pbt.Spec[Case]{
	Prop: "C04", Name: "truncation-and-hostile-fields",
	Rule:  "a valid encoding for one of the decoders (tagged value, step stream, the two unregistered step types, transaction record, service record, every pack type, record blobs read by GetRecords, zip payload, int-int map, typed lists) built from a rapid-drawn choice stream; fault enumeration over it: EVERY strict prefix must make the decoder report failure (panic) and never return an object, and 15 hostile length/count patterns (2^20..2^31-1, -1, 65535, 255 in decimal, blob, 16- and 32-bit form) written over and inserted at EVERY offset must leave decoding terminating (30 s watchdog) within 1 MiB + 2048 x input bytes of allocation; non-trivial = message of at least 8 bytes; distinct by target+message bytes",
	Quick: 420, Thorough: 24000,
	Draw: func(t *rapid.T) Case {
		return Case{Target: rapid.SampledFrom(targetNames()).Draw(t, "target"), Seed: rapid.Uint64().Draw(t, "seed"),
			Len: rapid.SampledFrom([]int{0, 6, 40, 200, 200, 1500}).Draw(t, "len"), Prefix: rapid.SliceOfN(rapid.Uint64(), 0, 6).Draw(t, "prefix")}
	},
	Run: run,
})

func TestFaults(t *testing.T) {
	runtime.LockOSThread()
	defer runtime.UnlockOSThread()
	wd = pbt.NewWatchdog("C04", "truncation-and-hostile-fields", 30*time.Second)
	defer func() { wd.Stop(); wd = nil }()
	// every target at least a few times, independent of the random target choice
	for _, name := range targetNames() {
		for seed := uint64(1); seed <= uint64(pbt.Pick(2, 12)); seed++ {
			specFaults.RunCase(t, Case{Target: name, Seed: seed*48271 + uint64(pbt.Seed()), Len: []int{30, 300}[seed%2]})
		}
	}
	specFaults.Check(t)
	pbt.Extra("truncation-and-hostile-fields", "decodes_of_faulty_input", total.decodes)
	pbt.Extra("truncation-and-hostile-fields", "hostile_inputs_rejected", total.hostilePanics)
	pbt.Extra("truncation-and-hostile-fields", "hostile_inputs_decoded_within_bound", total.hostileReturns)
	pbt.Extra("truncation-and-hostile-fields", "max_alloc_over_bound_ratio_x1000", int(total.maxRatio*1000))
}

// ---- annotated hostile fields on values ------------------------------------------------------

type FieldCase struct {
	V     *ref.V `json:"v"`
	Field int    `json:"field"` // index of the annotated length/count/tag field, modulo the number of fields
	Val   int64  `json:"val"`
}

var hostileVals = []int64{-1, -2147483648, 2147483647, 1 << 27, 1 << 24, 1 << 20, 65535, 32768, 255, 254, 253}

var specField = pbt.Register(pbt.Spec[FieldCase]{
	Prop: "C04", Name: "hostile-count-field",
	Rule:  "a valid value encoding produced by the annotated reference encoder with exactly ONE length / count / type-tag field replaced by a hostile value (-1, -2^31, 2^31-1, 2^27, 2^24, 2^20, 65535, 32768, 255, 254, 253), elements unchanged; golib must terminate within the allocation bound, and whenever the independent reference decoder rejects the bytes golib must not return a value built from bytes that are not there (it may only return when the reference decoder accepts a prefix of the same length); non-trivial = the field is a count/length of a container or string that has elements; distinct by mutated bytes",
	Quick: 4000, Thorough: 300000,
	Draw: func(t *rapid.T) FieldCase {
		return FieldCase{V: gval.Value(gval.Opts{MaxDepth: 4, MaxWidth: 5}).Draw(t, "v"), Field: rapid.IntRange(0, 1<<16).Draw(t, "field"), Val: rapid.SampledFrom(hostileVals).Draw(t, "val")}
	},
	Run: func(c FieldCase) *pbt.Result {
		w := ref.NewW()
		ref.EncodeValue(w, c.V)
		n := len(w.Marks)
		k := c.Field % n
		mk := w.Marks[k]
		w2 := ref.NewW()
		w2.Override, w2.OverrideVal = k, c.Val
		ref.EncodeValue(w2, c.V)
		b := w2.B
		if bytes.Equal(b, w.B) {
			return &pbt.Result{Classes: []string{"unchanged"}}
		}
		before := allocated()
		var got value.Value
		var perr interface{}
		consumed := 0
		func() {
			defer func() { perr = recover() }()
			in := wio.NewDataInputX(append([]byte(nil), b...))
			got = value.ReadValue(in)
			consumed = len(b) - int(in.Available())
		}()
		alloc := allocated() - before
		if bound := uint64(allocBase + allocPerByte*len(b)); alloc > bound {
			alloc = leastAlloc(alloc, bound, func() { value.ReadValue(wio.NewDataInputX(append([]byte(nil), b...))) })
		}
		if bound := uint64(allocBase + allocPerByte*len(b)); alloc > bound {
			return pbt.Fail("decoding %d bytes with %s field #%d set to %d allocated %d bytes (bound %d)", len(b), mk.Kind, k, c.Val, alloc, bound)
		}
		r := ref.NewR(b)
		var info ref.DecodeInfo
		rv := ref.DecodeValue(r, &info)
		if perr == nil {
			// golib returned a value: it must be explainable by the bytes (the reference reads the same value from the same number of bytes)
			if r.Err == nil {
				view, err := gval.FromGolib(got)
				if err != nil {
					return pbt.Fail("decoded value is malformed: %v", err)
				}
				if !info.DupKeys && (consumed != r.Pos || !ref.EqualValue(rv, view)) {
					return pbt.Fail("hostile %s field: golib returns a value from %d bytes that the reference decoder does not read from these bytes (reference consumed %d)", mk.Kind, consumed, r.Pos)
				}
			} else if consumed > len(b) || consumed < 0 {
				return pbt.Fail("golib consumed %d of %d bytes", consumed, len(b))
			}
		}
		cl := "golib-rejects"
		if perr == nil {
			cl = "golib-decodes"
		}
		return &pbt.Result{NT: mk.Kind != ref.KTag && mk.Val > 0, Classes: []string{"field=" + mk.Kind, cl}, Key: b}
	},
})

func TestHostileCountField(t *testing.T) {
	runtime.LockOSThread()
	defer runtime.UnlockOSThread()
	specField.Check(t)
}

// ---- primitive reads on short buffers ---------------------------------------------------------

type primRead struct {
	name  string
	width int // bytes the read needs at least
	read  func(in *wio.DataInputX) []byte
}

func be(v uint64, n int) []byte {
	b := make([]byte, n)
	for i := 0; i < n; i++ {
		b[n-1-i] = byte(v >> (8 * uint(i)))
	}
	return b
}

var primReads = []primRead{
	{"ReadBool", 1, func(in *wio.DataInputX) []byte { in.ReadBool(); return nil }},
	{"ReadByte", 1, func(in *wio.DataInputX) []byte { return []byte{in.ReadByte()} }},
	{"ReadShort", 2, func(in *wio.DataInputX) []byte { return be(uint64(uint16(in.ReadShort())), 2) }},
	{"ReadUShort", 2, func(in *wio.DataInputX) []byte { return be(uint64(in.ReadUShort()), 2) }},
	{"ReadUnsignedShort", 2, func(in *wio.DataInputX) []byte { return be(uint64(in.ReadUnsignedShort()), 2) }},
	{"ReadShortLittle", 2, func(in *wio.DataInputX) []byte { in.ReadShortLittle(); return nil }},
	{"ReadUnsignedShortLittle", 2, func(in *wio.DataInputX) []byte { in.ReadUnsignedShortLittle(); return nil }},
	{"ReadInt3", 3, func(in *wio.DataInputX) []byte { return be(uint64(uint32(in.ReadInt3())&0xffffff), 3) }},
	{"ReadInt", 4, func(in *wio.DataInputX) []byte { return be(uint64(uint32(in.ReadInt())), 4) }},
	{"ReadUnsignedInt", 4, func(in *wio.DataInputX) []byte { return be(uint64(in.ReadUnsignedInt()), 4) }},
	{"ReadIntLittle", 4, func(in *wio.DataInputX) []byte { in.ReadIntLittle(); return nil }},
	{"ReadUintLittle", 4, func(in *wio.DataInputX) []byte { in.ReadUintLittle(); return nil }},
	{"ReadLong5", 5, func(in *wio.DataInputX) []byte { return be(uint64(in.ReadLong5())&0xffffffffff, 5) }},
	{"ReadLong", 8, func(in *wio.DataInputX) []byte { return be(uint64(in.ReadLong()), 8) }},
	{"ReadFloat", 4, func(in *wio.DataInputX) []byte { in.ReadFloat(); return nil }},
	{"ReadDouble", 8, func(in *wio.DataInputX) []byte { in.ReadDouble(); return nil }},
	{"ReadBytes(5)", 5, func(in *wio.DataInputX) []byte { return in.ReadBytes(5) }},
}

// length-prefixed reads: the prefix announces n payload bytes, the buffer holds fewer
var prefixedReads = []struct {
	name   string
	prefix func(n int) []byte
	read   func(in *wio.DataInputX) []byte
}{
	{"ReadBlob(short form)", func(n int) []byte { return []byte{byte(n)} }, func(in *wio.DataInputX) []byte { return in.ReadBlob() }},
	{"ReadBlob(255 form)", func(n int) []byte { return append([]byte{255}, be(uint64(n), 2)...) }, func(in *wio.DataInputX) []byte { return in.ReadBlob() }},
	{"ReadBlob(254 form)", func(n int) []byte { return append([]byte{254}, be(uint64(n), 4)...) }, func(in *wio.DataInputX) []byte { return in.ReadBlob() }},
	{"ReadText", func(n int) []byte { return []byte{byte(n)} }, func(in *wio.DataInputX) []byte { return []byte(in.ReadText()) }},
	{"ReadShortBytes", func(n int) []byte { return be(uint64(n), 2) }, func(in *wio.DataInputX) []byte { return in.ReadShortBytes() }},
	{"ReadIntBytes", func(n int) []byte { return be(uint64(n), 4) }, func(in *wio.DataInputX) []byte { return in.ReadIntBytes() }},
	{"ReadIntBytesLimit", func(n int) []byte { return be(uint64(n), 4) }, func(in *wio.DataInputX) []byte { return in.ReadIntBytesLimit(1 << 20) }},
	{"ReadTextShortLength", func(n int) []byte { return be(uint64(n), 2) }, func(in *wio.DataInputX) []byte { return []byte(in.ReadTextShortLength()) }},
	{"ReadDecimal", func(n int) []byte { return []byte{byte(n)} }, func(in *wio.DataInputX) []byte { in.ReadDecimal(); return nil }},
}

var arrayReads = []struct {
	name string
	elem int
	read func(in *wio.DataInputX)
}{
	{"ReadShortArray", 2, func(in *wio.DataInputX) { in.ReadShortArray() }},
	{"ReadIntArray", 4, func(in *wio.DataInputX) { in.ReadIntArray() }},
	{"ReadLongArray", 8, func(in *wio.DataInputX) { in.ReadLongArray() }},
	{"ReadFloatArray", 4, func(in *wio.DataInputX) { in.ReadFloatArray() }},
	{"ReadDoubleArray", 8, func(in *wio.DataInputX) { in.ReadDoubleArray() }},
	{"ReadTextArray", 1, func(in *wio.DataInputX) { in.ReadTextArray() }},
}

func panics(f func()) (p bool) {
	defer func() {
		if recover() != nil {
			p = true
		}
	}()
	f()
	return false
}

// index space: fixed-width reads x remaining bytes 0..width-1 x 4 fill patterns, then prefixed reads x announced length x missing bytes, then arrays.
func primCase(i uint64) (name string, buf []byte, f func(in *wio.DataInputX) []byte, mustPanic bool) {
	fills := []byte{0x00, 0xff, 0x5a, 0x80}
	n := uint64(0)
	for _, pr := range primReads {
		cnt := uint64(pr.width * len(fills))
		if i < n+cnt {
			k := int(i - n)
			have := k / len(fills)
			buf = bytes.Repeat([]byte{fills[k%len(fills)]}, have)
			return fmt.Sprintf("%s with %d of %d bytes", pr.name, have, pr.width), buf, pr.read, true
		}
		n += cnt
	}
	lens := []int{1, 2, 5, 8, 100, 253}
	for _, pr := range prefixedReads {
		cnt := uint64(len(lens) * 3)
		if i < n+cnt {
			k := int(i - n)
			ann := lens[k/3]
			if pr.name == "ReadDecimal" {
				ann = []int{1, 2, 3, 4, 5, 8}[k/3]
			}
			missing := []int{1, ann, (ann + 1) / 2}[k%3]
			have := ann - missing
			if have < 0 {
				have = 0
			}
			buf = append(pr.prefix(ann), bytes.Repeat([]byte{0x41}, have)...)
			return fmt.Sprintf("%s announcing %d bytes, %d present", pr.name, ann, have), buf, pr.read, true
		}
		n += cnt
	}
	counts := []int{1, 3, 1000, 32767}
	for _, ar := range arrayReads {
		cnt := uint64(len(counts) * 2)
		if i < n+cnt {
			k := int(i - n)
			c := counts[k/2]
			have := c*ar.elem - 1
			if k%2 == 1 {
				have = 0
			}
			if have > 4096 {
				have = 4096
			}
			buf = append(be(uint64(c), 2), bytes.Repeat([]byte{0x01}, have)...)
			rd := ar.read
			return fmt.Sprintf("%s announcing %d elements, %d payload bytes present", ar.name, c, have), buf, func(in *wio.DataInputX) []byte { rd(in); return nil }, true
		}
		n += cnt
	}
	return "", nil, nil, false
}

func primTotal() uint64 {
	n := uint64(0)
	for {
		if name, _, _, _ := primCase(n); name == "" {
			return n
		}
		n++
	}
}

var sweepPrim = pbt.RegisterSweep(pbt.Sweep{Prop: "C04", Name: "primitive-short-reads",
	Rule: "exhaustive over (read method, bytes present): each of the 17 fixed-width reads with 0..width-1 bytes in four fill patterns, each of the 9 length-prefixed reads announcing 1..253 bytes with 1, half or all payload bytes missing, each of the 6 typed-array reads announcing 1..32767 elements with one or all payload bytes missing: the read must panic and must not return; every case is non-trivial and distinct",
	N:    primTotal(),
	Run: func(i uint64) (bool, error) {
		name, buf, f, _ := primCase(i)
		var ret []byte
		before := allocated()
		p := panics(func() { ret = f(wio.NewDataInputX(append([]byte(nil), buf...))) })
		if !p {
			return true, fmt.Errorf("%s: the read returned %x instead of reporting failure (buffer %x)", name, ret, buf)
		}
		bound := allocBase + allocPerByte*uint64(len(buf))
		if a := leastAlloc(allocated()-before, bound, func() { f(wio.NewDataInputX(append([]byte(nil), buf...))) }); a > bound {
			return true, fmt.Errorf("%s: allocated %d bytes for a %d-byte buffer", name, a, len(buf))
		}
		return true, nil
	},
	Show: func(i uint64) interface{} {
		n, b, _, _ := primCase(i)
		return map[string]string{"read": n, "buffer": gen.Hex(b)}
	}})

func TestPrimitiveShortReads(t *testing.T) { sweepPrim.Check(t, 1) }

// Reads that succeed never return bytes that are not a substring of the input.
type SubCase struct {
	Buf  string `json:"buf"`
	Kind int    `json:"kind"`
	N    int    `json:"n"`
}

var specSub = pbt.Register(pbt.Spec[SubCase]{
	Prop: "C04", Name: "returned-bytes-are-input-bytes",
	Rule:  "random buffers and byte-string reads (ReadBytes(n), ReadBlob, ReadShortBytes, ReadIntBytes, ReadText) with n around the buffer length: a read that returns must return exactly the next bytes of the input and advance Available() by the bytes consumed, and the bytes returned must survive the caller overwriting its input buffer afterwards (one buffer in eight is 4 KiB .. 64 KiB+ long); a read that needs more than is there must panic; non-trivial = n within 2 of the bytes available; distinct by (buffer, kind, n)",
	Quick: 6000, Thorough: 300000,
	Draw: func(t *rapid.T) SubCase {
		// one buffer in eight is long (4 KiB .. beyond 64 KiB: the sizes of record blobs, profiles and zipped batches)
		b := gen.Bytes(rapid.IntRange(0, 7).Draw(t, "long") == 0).Draw(t, "buf")
		if len(b) > 64 && len(b) < 4096 && rapid.Bool().Draw(t, "pad") {
			b = append(b, bytes.Repeat([]byte{0x6b}, 5000)...)
		}
		return SubCase{Buf: gen.Hex(b), Kind: rapid.IntRange(0, 4).Draw(t, "kind"), N: rapid.IntRange(-2, len(b)+3).Draw(t, "n")}
	},
	Run: func(c SubCase) *pbt.Result {
		payload := gen.UnHex(c.Buf)
		var buf []byte
		need := c.N
		switch c.Kind {
		case 0:
			buf = payload
		case 1: // blob
			if c.N < 0 || c.N > 253 {
				return &pbt.Result{}
			}
			buf = append([]byte{byte(c.N)}, payload...)
		case 2:
			if c.N < 0 {
				return &pbt.Result{}
			}
			buf = append(be(uint64(c.N), 2), payload...)
		case 3:
			buf = append(be(uint64(uint32(int32(c.N))), 4), payload...)
		case 4:
			if c.N < 0 || c.N > 253 {
				return &pbt.Result{}
			}
			buf = append([]byte{byte(c.N)}, payload...)
		}
		inbuf := append([]byte(nil), buf...)
		in := wio.NewDataInputX(inbuf)
		var got []byte
		p := panics(func() {
			switch c.Kind {
			case 0:
				got = in.ReadBytes(int32(c.N))
			case 1:
				got = in.ReadBlob()
			case 2:
				got = in.ReadShortBytes()
			case 3:
				got = in.ReadIntBytes()
			case 4:
				got = []byte(in.ReadText())
			}
		})
		should := need < 0 || need > len(payload)
		if should && !p {
			return pbt.Fail("read of %d bytes from %d available returned %x", need, len(payload), got)
		}
		if !should {
			if p {
				return pbt.Fail("read of %d bytes from %d available panicked", need, len(payload))
			}
			if !bytes.Equal(got, payload[:need]) {
				return pbt.Fail("read of %d bytes returned %x, the input holds %x", need, got, payload[:need])
			}
			if int(in.Available()) != len(payload)-need {
				return pbt.Fail("Available()=%d after reading %d of %d bytes", in.Available(), need, len(payload))
			}
			// the receiver uses its buffer for the next datagram: what a read returned stays what it was (seed C04-s24)
			for i := range inbuf {
				inbuf[i] ^= 0xff
			}
			if !bytes.Equal(got, payload[:need]) {
				return pbt.Fail("the %d bytes a read returned changed when the caller overwrote the buffer it had handed to the reader (the next datagram): they are part of that buffer, not the reader's result", need)
			}
		}
		d := need - len(payload)
		return &pbt.Result{NT: d >= -2 && d <= 2, Classes: []string{fmt.Sprintf("kind=%d", c.Kind)}}
	},
})

func TestReturnedBytes(t *testing.T) { specSub.Check(t) }

// Unknown type codes must be reported, never decoded as some other type.
func TestUnknownTypeCodes(t *testing.T) {
	known := map[byte]bool{}
	for _, c := range ref.AllTypes {
		known[c] = true
	}
	sw := pbt.RegisterSweep(pbt.Sweep{Prop: "C04", Name: "unknown-type-codes",
		Rule: "exhaustive over all 256 value type codes, all 256 step type codes, all 256 service type codes and all 65536 pack type codes followed by 64 zero bytes: a code the registry does not know must make the decoder panic, never return an object; for a code it knows, the object it creates must report that very type code and (packs) no strict prefix of the encoding of the empty pack of that type may decode; every unknown code is a non-trivial distinct case",
		N:    256*3 + 65536,
		Run: func(i uint64) (bool, error) {
			pad := make([]byte, 64)
			switch {
			case i < 256:
				if known[byte(i)] {
					return false, nil
				}
				if !panics(func() { value.ReadValue(wio.NewDataInputX(append([]byte{byte(i)}, pad...))) }) {
					return true, fmt.Errorf("unknown value type code %d decodes without failure", i)
				}
			case i < 512:
				c := byte(i - 256)
				if st := step.CreateStep(c); st != nil {
					if st.GetStepType() != c {
						return true, fmt.Errorf("step type code %d is decoded into an object that says it is of type %d: the decoded object names a type that is not in the input", c, st.GetStepType())
					}
					return false, nil
				}
				if !panics(func() { step.ReadStep(wio.NewDataInputX(append([]byte{c}, pad...))) }) {
					return true, fmt.Errorf("unknown step type code %d decodes without failure", c)
				}
			case i < 768:
				c := byte(i - 512)
				if service.CreateService(c) != nil {
					return false, nil
				}
				if !panics(func() { service.ToObject(wio.NewDataInputX(append([]byte{c}, pad...))) }) {
					return true, fmt.Errorf("unknown service type code %d decodes without failure", c)
				}
			default:
				c := int16(uint16(i - 768))
				if pk := pack.CreatePack(c); pk != nil {
					if pk.GetPackType() != c {
						return true, fmt.Errorf("pack type code %#04x is decoded into an object that says it is of type %#04x (%T): the decoded object names a type that is not in the input", uint16(c), uint16(pk.GetPackType()), pk)
					}
					// the registry knows the code: the empty pack of that type encodes, and no strict prefix of that encoding decodes
					var enc []byte
					if !panics(func() { enc = append([]byte(nil), pack.ToBytesPack(pk)...) }) {
						for cut := 0; cut < len(enc); cut++ {
							if !panics(func() { pack.ToPack(append([]byte(nil), enc[:cut]...)) }) {
								return true, fmt.Errorf("pack type %#04x: the %d-byte strict prefix of the %d-byte encoding of an empty pack decodes without failure", uint16(c), cut, len(enc))
							}
						}
						return true, nil
					}
					return false, nil
				}
				if !panics(func() { pack.ToPack(append([]byte{byte(uint16(c) >> 8), byte(c)}, pad...)) }) {
					return true, fmt.Errorf("unknown pack type code %#04x decodes without failure", uint16(c))
				}
			}
			return true, nil
		}, Show: func(i uint64) interface{} { return fmt.Sprintf("code index %d", i) }})
	sw.Check(t, 1)
}

// Regression inputs found by earlier campaigns.
func TestKillerInputs(t *testing.T) {
	runtime.LockOSThread()
	defer runtime.UnlockOSThread()
	for _, hx := range []string{"46fc0000005a", "460408000000", "50047fffffff", "51047fffffff", "477fff", "4a7fff", "3cfe7fffffff", "4604ffffffff"} {
		b := gen.UnHex(hx)
		before := allocated()
		panics(func() { value.ReadValue(wio.NewDataInputX(b)) })
		bound := allocBase + allocPerByte*uint64(len(b))
		if a := leastAlloc(allocated()-before, bound, func() { value.ReadValue(wio.NewDataInputX(b)) }); a > bound {
			t.Fatalf("ReadValue(%s) allocated %d bytes", hx, a)
		}
	}
}

// ---- native fuzz target (thorough tier) ---------------------------------------------------
// The first byte selects the decoder, the rest is its input. Oracle inside the target:
// termination (the fuzz engine's own per-input deadline) and the allocation bound.
var fuzzTargets = []string{"value", "steps", "txrecord", "service", "pack:CounterPack1", "pack:TextPack", "pack:TagCountPack", "pack:LogSinkPack", "pack:CompositePack",
	"pack:ZipPack", "pack:StatGeneralPack", "pack:SMBasePack", "pack:SMProcPerfPack", "pack:EventPack", "pack:ParamPack", "pack:ProfilePack", "records:StatTransactionPack1", "records:ZipPack", "records:StatServicePack"}

func FuzzDecoders(f *testing.F) {
	for i, name := range fuzzTargets {
		t := targetByName[name]
		for seed := uint64(1); seed <= 3; seed++ {
			gpack.ResetAux()
			f.Add(append([]byte{byte(i)}, t.Build(rfl.NewStream(nil, seed*977, 200))...))
		}
	}
	for _, h := range hostile {
		f.Add(append([]byte{0, 70}, h...))
		f.Add(append([]byte{4, 0, 1, 2, 3}, h...))
	}
	f.Add([]byte{0, 0x46, 0xfc, 0, 0, 0, 0x5a})
	f.Fuzz(func(t *testing.T, data []byte) {
		if len(data) < 1 || len(data) > 1<<16 {
			return
		}
		tg := targetByName[fuzzTargets[int(data[0])%len(fuzzTargets)]]
		b := data[1:]
		_, a := tryDecode(tg, append([]byte{}, b...))
		if bound := uint64(allocBase + allocPerByte*len(b)); a > 4*bound { // 4x: other fuzz-worker goroutines allocate concurrently
			t.Fatalf("%s: decoding %d bytes allocated %d bytes (bound %d)", tg.Name, len(b), a, bound)
		}
	})
}

// ---- reads from a connection: a peer that closes mid-field ---------------------------------------------

type NetCase struct {
	Stream string `json:"stream"` // bytes the peer would send in full
	Cut    int    `json:"cut"`    // the peer sends Stream[:Cut] and closes
	Chunks []int  `json:"chunks"` // sizes of the peer's writes (cycled)
	Reads  []int  `json:"reads"`  // field widths read in order: 1,2,3,4,5,8 = fixed-width integers; >= 100: ReadBytes(n-100)
	// Stall: the peer does not close after Stream[:Cut], it just sends nothing more; the reader's connection carries a
	// read deadline of 80 ms (as the agents set one): the cut read must report failure, in bounded time
	Stall bool `json:"stall,omitempty"`
}

var specNet = pbt.Register(pbt.Spec[NetCase]{
	Prop: "C04", Name: "connection-short-reads",
	Rule:  "a DataInputX reading from a connection (net.Pipe) whose peer writes a prefix of the stream in generated chunk sizes and then closes (one case in sixteen: sends nothing more without closing, the reader's connection has an 80 ms read deadline); a sequence of fixed-width and ReadBytes(n) reads: a read whose field lies completely inside what was sent must return exactly those bytes, a read whose field is cut by the close must report failure (panic) and never return zero-filled or partial data; non-trivial = the close falls strictly inside a multi-byte field; distinct by case",
	Quick: 1500, Thorough: 60000,
	Draw: func(t *rapid.T) NetCase {
		b := rapid.SliceOfN(rapid.Byte(), 1, 64).Draw(t, "stream")
		c := NetCase{Stream: gen.Hex(b), Cut: rapid.IntRange(0, len(b)).Draw(t, "cut")}
		c.Chunks = rapid.SliceOfN(rapid.IntRange(1, 9), 1, 4).Draw(t, "chunks")
		c.Reads = rapid.SliceOfN(rapid.SampledFrom([]int{1, 2, 3, 4, 5, 8, 100, 101, 103, 107, 116}), 1, 12).Draw(t, "reads")
		c.Stall = rapid.IntRange(0, 15).Draw(t, "stall") == 0
		return c
	},
	Run: func(c NetCase) *pbt.Result {
		s := gen.UnHex(c.Stream)
		cut := c.Cut
		if cut > len(s) {
			cut = len(s)
		}
		server, client := net.Pipe()
		over := make(chan struct{})
		defer close(over)
		go func() {
			defer server.Close()
			off := 0
			for i := 0; off < cut; i++ {
				n := c.Chunks[i%len(c.Chunks)]
				if off+n > cut {
					n = cut - off
				}
				if _, err := server.Write(s[off : off+n]); err != nil {
					return
				}
				off += n
			}
			if c.Stall {
				<-over // neither data nor close until the case is over
			}
		}()
		defer client.Close()
		in := wio.NewDataInputNet(client)
		off := 0
		inside := false
		stuck := false
		for ri, w := range c.Reads {
			width := w
			if w >= 100 {
				width = w - 100
			}
			if off+width > len(s) {
				break
			}
			var got []byte
			panics := panics
			if c.Stall && off+width > cut {
				// the read that waits for bytes that never come: it has to end, with a failure (the deadline is set now, so
				// that the reads before it are not affected by a slow machine)
				client.SetReadDeadline(time.Now().Add(80 * time.Millisecond))
				panics = func(f func()) bool {
					returned, pv := pbt.WithTimeout(15*time.Second, f)
					if !returned {
						stuck = true
						return true
					}
					return pv != nil
				}
			}
			p := panics(func() {
				switch w {
				case 1:
					got = []byte{in.ReadByte()}
				case 2:
					got = be(uint64(uint16(in.ReadShort())), 2)
				case 3:
					got = be(uint64(uint32(in.ReadInt3())&0xffffff), 3)
				case 4:
					got = be(uint64(uint32(in.ReadInt())), 4)
				case 5:
					got = be(uint64(in.ReadLong5())&0xffffffffff, 5)
				case 8:
					got = be(uint64(in.ReadLong()), 8)
				default:
					got = in.ReadBytes(int32(width))
				}
			})
			whole := off+width <= cut
			if whole {
				if p {
					return pbt.Fail("read %d (%d bytes at offset %d) failed although the peer sent all of them (%d bytes sent)", ri, width, off, cut)
				}
				if !bytes.Equal(got, s[off:off+width]) {
					return pbt.Fail("read %d returned %x, the peer sent %x", ri, got, s[off:off+width])
				}
				off += width
				continue
			}
			if off < cut && width > 1 {
				inside = true
			}
			if stuck {
				return pbt.Fail("read %d of %d bytes at offset %d: the peer sent %d bytes and then nothing (no close); the connection's read deadline passed 15 s ago and the read has neither returned nor reported failure", ri, width, off, cut)
			}
			if !p {
				return pbt.Fail("read %d of %d bytes at offset %d returned %x although the peer closed after %d bytes: data that was never received", ri, width, off, got, cut)
			}
			break
		}
		return &pbt.Result{NT: inside, Classes: []string{fmt.Sprintf("cut-inside-field=%v", inside), fmt.Sprintf("peer-stalls-instead-of-closing=%v", c.Stall)}}
	},
})

func TestConnectionShortReads(t *testing.T) { specNet.Check(t) }
