package c04

// decoded-content-is-input-content: "no read returns bytes that were not present in its input", stated for whole
// messages. A valid encoding B is decoded after other valid encodings of the same type went through the decoder
// in the same process; every string and byte string of three or more bytes found anywhere in the decoded object
// (exported or not) must occur in B. The decoder has nowhere else to take text from: anything it holds that B
// does not contain comes from an earlier input, a cache or a pool.

import (
	"bytes"
	"fmt"
	"reflect"
	"strings"
	"testing"
	"unsafe"

	wio "github.com/whatap/golib/io"
	"github.com/whatap/golib/lang/pack"
	"github.com/whatap/golib/lang/step"
	"pgregory.net/rapid"
	"verif/gpack"
	"verif/gstep"
	"verif/pbt"
	"verif/rfl"
)

type ContentCase struct {
	Target  string   `json:"target"` // pack:<spec> or step:<spec>
	Seed    uint64   `json:"seed"`
	Len     int      `json:"len"`
	Earlier []uint64 `json:"earlier"` // build seeds of the encodings decoded before
}

// texts returns the strings and byte strings (>= 3 bytes) held by x, by path. Every pointer is visited once (the
// linked maps inside some packs are cyclic).
func texts(x interface{}) map[string]string {
	out := map[string]string{}
	seen := map[uintptr]bool{}
	var walk func(path string, v reflect.Value, depth int)
	walk = func(path string, v reflect.Value, depth int) {
		if !v.IsValid() || depth > 200 {
			return
		}
		switch v.Kind() {
		case reflect.String:
			if v.Len() >= 3 {
				out[path] = v.String()
			}
		case reflect.Slice, reflect.Array:
			if v.Type().Elem().Kind() == reflect.Uint8 {
				if n := v.Len(); n >= 3 {
					b := make([]byte, n)
					for i := 0; i < n; i++ {
						b[i] = byte(v.Index(i).Uint())
					}
					out[path] = string(b)
				}
				return
			}
			switch v.Type().Elem().Kind() {
			case reflect.Bool, reflect.Int8, reflect.Int16, reflect.Int32, reflect.Int64, reflect.Int, reflect.Uint16, reflect.Uint32, reflect.Uint64, reflect.Uint, reflect.Float32, reflect.Float64:
				return
			}
			for i := 0; i < v.Len(); i++ {
				walk(fmt.Sprintf("%s[%d]", path, i), v.Index(i), depth+1)
			}
		case reflect.Ptr:
			if v.IsNil() || seen[v.Pointer()] {
				return
			}
			seen[v.Pointer()] = true
			walk(path, v.Elem(), depth+1)
		case reflect.Interface:
			if !v.IsNil() {
				walk(path, v.Elem(), depth+1)
			}
		case reflect.Struct:
			t := v.Type()
			if t.PkgPath() == "sync" {
				return
			}
			for i := 0; i < v.NumField(); i++ {
				f := v.Field(i)
				if !t.Field(i).IsExported() {
					if !f.CanAddr() {
						c := reflect.New(t).Elem()
						c.Set(v)
						f = c.Field(i)
					}
					f = reflect.NewAt(f.Type(), unsafe.Pointer(f.UnsafeAddr())).Elem()
				}
				walk(path+"."+t.Field(i).Name, f, depth+1)
			}
		case reflect.Map:
			for _, k := range v.MapKeys() {
				walk(fmt.Sprintf("%s{key}", path), k, depth+1)
				walk(fmt.Sprintf("%s{%v}", path, k), v.MapIndex(k), depth+1)
			}
		}
	}
	walk("", reflect.ValueOf(x), 0)
	return out
}

type contentTarget struct {
	build  func(s *rfl.Stream) []byte
	decode func(b []byte) interface{}
	fresh  func() interface{}
}

func contentTargetOf(name string) *contentTarget {
	switch {
	case strings.HasPrefix(name, "pack:"):
		sp := gpack.ByName[name[5:]]
		if sp == nil {
			return nil
		}
		return &contentTarget{
			build: func(s *rfl.Stream) []byte { return encodePack(sp, sp.Build(s, 0)) },
			decode: func(b []byte) interface{} {
				var q pack.Pack
				if sp.Registered {
					q = pack.ToPack(b)
				} else {
					q = sp.New()
					q.Read(wio.NewDataInputX(b))
				}
				if x, ok := q.(*pack.StatGeneralPack); ok {
					x.GetDataTable()
				}
				return q
			},
			fresh: func() interface{} { return sp.New() },
		}
	case strings.HasPrefix(name, "step:"):
		sp := gstep.ByName[name[5:]]
		if sp == nil {
			return nil
		}
		return &contentTarget{
			build: func(s *rfl.Stream) []byte {
				st := sp.Build(s)
				if sp.Registered {
					return append([]byte(nil), step.ToBytesStep([]step.Step{st.(step.Step)})...)
				}
				o := wio.NewDataOutputX()
				st.Write(o)
				return append([]byte(nil), o.ToByteArray()...)
			},
			decode: func(b []byte) interface{} {
				if sp.Registered {
					return step.ReadStep(wio.NewDataInputX(b))
				}
				q := sp.New()
				q.Read(wio.NewDataInputX(b))
				return q
			},
			fresh: func() interface{} { return sp.New() },
		}
	}
	return nil
}

func contentTargetNames() []string {
	var out []string
	for _, sp := range gpack.Specs {
		if !strings.Contains(sp.Name, "/large") {
			out = append(out, "pack:"+sp.Name)
		}
	}
	for _, sp := range gstep.Specs {
		out = append(out, "step:"+sp.Name)
	}
	return out
}

func runContent(c ContentCase) (res *pbt.Result) {
	t := contentTargetOf(c.Target)
	if t == nil {
		return pbt.Fail("unknown target %q", c.Target)
	}
	defer func() {
		if r := recover(); r != nil {
			res = pbt.Fail("%s: a valid encoding did not decode: %v", c.Target, r)
		}
	}()
	gpack.ResetAux()
	for _, e := range c.Earlier {
		t.decode(t.build(rfl.NewStream(nil, e, c.Len)))
	}
	b := t.build(rfl.NewStream(nil, c.Seed, c.Len))
	in := append([]byte(nil), b...)
	got := texts(t.decode(in))
	defaults := map[string]bool{}
	for _, s := range texts(t.fresh()) {
		defaults[s] = true
	}
	n := 0
	for path, s := range got {
		if defaults[s] {
			continue
		}
		n++
		if !bytes.Contains(b, []byte(s)) {
			show := s
			if len(show) > 60 {
				show = show[:60] + "…"
			}
			return pbt.Fail("%s: after decoding %d other valid encodings, the decoded %d-byte encoding holds %q (%d bytes) at %s; these bytes occur nowhere in its input %x", c.Target, len(c.Earlier), len(b), show, len(s), path, b[:min(len(b), 120)])
		}
	}
	return &pbt.Result{NT: n > 0 && len(c.Earlier) > 0, Classes: []string{"target=" + c.Target, fmt.Sprintf("earlier=%d", len(c.Earlier))}, Key: append([]byte(c.Target+":"), b...)}
}

var specContent = pbt.Register(pbt.Spec[ContentCase]{
	Prop: "C04", Name: "decoded-content-is-input-content", Parallel: 8,
	Rule:  "a valid encoding B of any pack type or step type (reflectively filled; text records repeat (div, hash) pairs and use hash twins) is decoded after 0-4 other valid encodings of the same type were decoded in the same process; every string and byte string of >= 3 bytes anywhere in the decoded object (exported or unexported fields, nested records, lazily parsed tables) that a freshly constructed object does not also hold must occur as a byte substring of B; non-trivial = at least one such string and at least one earlier decode; distinct by target+message bytes",
	Quick: 3000, Thorough: 200000,
	Draw: func(t *rapid.T) ContentCase {
		return ContentCase{Target: rapid.SampledFrom(contentTargetNames()).Draw(t, "target"), Seed: rapid.Uint64().Draw(t, "seed"),
			Len: rapid.SampledFrom([]int{40, 200, 200, 600}).Draw(t, "len"), Earlier: rapid.SliceOfN(rapid.Uint64(), 0, 4).Draw(t, "earlier")}
	},
	Run: runContent,
})

func TestDecodedContentIsInputContent(t *testing.T) {
	for _, name := range contentTargetNames() {
		for seed := uint64(1); seed <= uint64(pbt.Pick(3, 12)); seed++ {
			specContent.RunCase(t, ContentCase{Target: name, Seed: seed*7919 + uint64(pbt.Seed()), Len: 200, Earlier: []uint64{seed * 31, seed*31 + 1}})
		}
	}
	specContent.Check(t)
}
