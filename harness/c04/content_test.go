package c04

// decoded-content-is-input-content: "no read returns bytes that were not present in its input", stated for whole
// messages. A valid encoding B is decoded after other valid encodings of the same type went through the decoder
// in the same process; every string and byte string of three or more bytes found anywhere in the decoded object
// (exported or not) must occur in B. The decoder has nowhere else to take text from: anything it holds that B
// does not contain comes from an earlier input, a cache or a pool.

import (
	"bytes"
	"compress/gzip"
	"fmt"
	"io"
	"reflect"
	"runtime"
	"strings"
	"sync"
	"sync/atomic"
	"testing"
	"unsafe"

	wio "github.com/whatap/golib/io"
	"github.com/whatap/golib/lang/pack"
	"github.com/whatap/golib/lang/step"
	"pgregory.net/rapid"
	"verif/gpack"
	"verif/gstep"
	"verif/pbt"
	"verif/rfl"
)

type ContentCase struct {
	Target  string   `json:"target"` // pack:<spec> or step:<spec>
	Seed    uint64   `json:"seed"`
	Len     int      `json:"len"`
	Earlier []uint64 `json:"earlier"` // build seeds of the encodings decoded before
}

// texts returns the strings and byte strings (>= 3 bytes) held by x, by path. Every pointer is visited once (the
// linked maps inside some packs are cyclic).
func texts(x interface{}) map[string]string {
	out := map[string]string{}
	seen := map[uintptr]bool{}
	var walk func(path string, v reflect.Value, depth int)
	walk = func(path string, v reflect.Value, depth int) {
		if !v.IsValid() || depth > 200 {
			return
		}
		switch v.Kind() {
		case reflect.String:
			if v.Len() >= 3 {
				out[path] = v.String()
			}
		case reflect.Slice, reflect.Array:
			if v.Type().Elem().Kind() == reflect.Uint8 {
				if n := v.Len(); n >= 3 {
					b := make([]byte, n)
					for i := 0; i < n; i++ {
						b[i] = byte(v.Index(i).Uint())
					}
					out[path] = string(b)
				}
				return
			}
			switch v.Type().Elem().Kind() {
			case reflect.Bool, reflect.Int8, reflect.Int16, reflect.Int32, reflect.Int64, reflect.Int, reflect.Uint16, reflect.Uint32, reflect.Uint64, reflect.Uint, reflect.Float32, reflect.Float64:
				return
			}
			for i := 0; i < v.Len(); i++ {
				walk(fmt.Sprintf("%s[%d]", path, i), v.Index(i), depth+1)
			}
		case reflect.Ptr:
			if v.IsNil() || seen[v.Pointer()] {
				return
			}
			seen[v.Pointer()] = true
			walk(path, v.Elem(), depth+1)
		case reflect.Interface:
			if !v.IsNil() {
				walk(path, v.Elem(), depth+1)
			}
		case reflect.Struct:
			t := v.Type()
			if t.PkgPath() == "sync" {
				return
			}
			for i := 0; i < v.NumField(); i++ {
				f := v.Field(i)
				if !t.Field(i).IsExported() {
					if !f.CanAddr() {
						c := reflect.New(t).Elem()
						c.Set(v)
						f = c.Field(i)
					}
					f = reflect.NewAt(f.Type(), unsafe.Pointer(f.UnsafeAddr())).Elem()
				}
				walk(path+"."+t.Field(i).Name, f, depth+1)
			}
		case reflect.Map:
			for _, k := range v.MapKeys() {
				walk(fmt.Sprintf("%s{key}", path), k, depth+1)
				walk(fmt.Sprintf("%s{%v}", path, k), v.MapIndex(k), depth+1)
			}
		}
	}
	walk("", reflect.ValueOf(x), 0)
	return out
}

// withRecords: a container pack and what its record accessor returned.
type withRecords struct {
	P    pack.Pack
	Recs interface{}
}

// inflated returns the gunzipped form of every byte string in x that is a gzip stream (compressed payloads are part
// of the input, in another spelling).
func inflated(x interface{}) []byte {
	var out []byte
	for _, t := range texts(x) {
		if len(t) > 10 && t[0] == 0x1f && t[1] == 0x8b {
			if zr, err := gzip.NewReader(strings.NewReader(t)); err == nil {
				if b, err := io.ReadAll(zr); err == nil {
					out = append(out, b...)
				}
			}
		}
	}
	return out
}

type contentTarget struct {
	build  func(s *rfl.Stream) []byte
	decode func(b []byte) interface{}
	fresh  func() interface{}
}

func contentTargetOf(name string) *contentTarget {
	switch {
	case strings.HasPrefix(name, "pack:"):
		sp := gpack.ByName[name[5:]]
		if sp == nil {
			return nil
		}
		return &contentTarget{
			build: func(s *rfl.Stream) []byte { return encodePack(sp, sp.Build(s, 0)) },
			decode: func(b []byte) interface{} {
				var q pack.Pack
				if sp.Registered {
					q = pack.ToPack(b)
				} else {
					q = sp.New()
					q.Read(wio.NewDataInputX(b))
				}
				switch x := q.(type) {
				case *pack.StatGeneralPack:
					x.GetDataTable()
				case *pack.LogSinkZipPack:
					// the records of a (compressed) batch belong to what the decode hands out (a payload that is not a
					// record stream makes the accessor fail: then there is nothing to look at)
					var recs interface{}
					func() {
						defer func() { recover() }()
						recs = x.GetRecords()
					}()
					return &withRecords{q, recs}
				case *pack.ZipPack:
					var recs interface{}
					func() {
						defer func() { recover() }()
						recs = x.GetRecords()
					}()
					return &withRecords{q, recs}
				}
				return q
			},
			fresh: func() interface{} { return sp.New() },
		}
	case strings.HasPrefix(name, "step:"):
		sp := gstep.ByName[name[5:]]
		if sp == nil {
			return nil
		}
		return &contentTarget{
			build: func(s *rfl.Stream) []byte {
				st := sp.Build(s)
				if sp.Registered {
					return append([]byte(nil), step.ToBytesStep([]step.Step{st.(step.Step)})...)
				}
				o := wio.NewDataOutputX()
				st.Write(o)
				return append([]byte(nil), o.ToByteArray()...)
			},
			decode: func(b []byte) interface{} {
				if sp.Registered {
					return step.ReadStep(wio.NewDataInputX(b))
				}
				q := sp.New()
				q.Read(wio.NewDataInputX(b))
				return q
			},
			fresh: func() interface{} { return sp.New() },
		}
	}
	return nil
}

func contentTargetNames() []string {
	var out []string
	for _, sp := range gpack.Specs {
		if !strings.Contains(sp.Name, "/large") {
			out = append(out, "pack:"+sp.Name)
		}
	}
	for _, sp := range gstep.Specs {
		out = append(out, "step:"+sp.Name)
	}
	return out
}

func runContent(c ContentCase) (res *pbt.Result) {
	t := contentTargetOf(c.Target)
	if t == nil {
		return pbt.Fail("unknown target %q", c.Target)
	}
	defer func() {
		if r := recover(); r != nil {
			res = pbt.Fail("%s: a valid encoding did not decode: %v", c.Target, r)
		}
	}()
	gpack.ResetAux()
	for _, e := range c.Earlier {
		t.decode(t.build(rfl.NewStream(nil, e, c.Len)))
	}
	b := t.build(rfl.NewStream(nil, c.Seed, c.Len))
	in := append([]byte(nil), b...)
	dec := t.decode(in)
	got := texts(dec)
	hay := append(append([]byte(nil), b...), inflated(dec)...)
	defaults := map[string]bool{}
	for _, s := range texts(t.fresh()) {
		defaults[s] = true
	}
	n := 0
	for path, s := range got {
		if defaults[s] {
			continue
		}
		n++
		if !bytes.Contains(hay, []byte(s)) {
			show := s
			if len(show) > 60 {
				show = show[:60] + "…"
			}
			return pbt.Fail("%s: after decoding %d other valid encodings, the decoded %d-byte encoding holds %q (%d bytes) at %s; these bytes occur nowhere in its input %x", c.Target, len(c.Earlier), len(b), show, len(s), path, b[:min(len(b), 120)])
		}
	}
	return &pbt.Result{NT: n > 0 && len(c.Earlier) > 0, Classes: []string{"target=" + c.Target, fmt.Sprintf("earlier=%d", len(c.Earlier))}, Key: append([]byte(c.Target+":"), b...)}
}

var specContent = pbt.Register(pbt.Spec[ContentCase]{
	Prop: "C04", Name: "decoded-content-is-input-content", Parallel: 8,
	Rule:  "a valid encoding B of any pack type or step type (reflectively filled; text records repeat (div, hash) pairs and use hash twins) is decoded after 0-4 other valid encodings of the same type were decoded in the same process; every string and byte string of >= 3 bytes anywhere in the decoded object (exported or unexported fields, nested records, lazily parsed tables, the records GetRecords returns for container packs) that a freshly constructed object does not also hold must occur as a byte substring of B (or of the gunzipped form of a compressed payload inside B); non-trivial = at least one such string and at least one earlier decode; distinct by target+message bytes",
	Quick: 3000, Thorough: 200000,
	Draw: func(t *rapid.T) ContentCase {
		return ContentCase{Target: rapid.SampledFrom(contentTargetNames()).Draw(t, "target"), Seed: rapid.Uint64().Draw(t, "seed"),
			Len: rapid.SampledFrom([]int{40, 200, 200, 600}).Draw(t, "len"), Earlier: rapid.SliceOfN(rapid.Uint64(), 0, 4).Draw(t, "earlier")}
	},
	Run: runContent,
})

func TestDecodedContentIsInputContent(t *testing.T) {
	for _, name := range contentTargetNames() {
		for seed := uint64(1); seed <= uint64(pbt.Pick(3, 12)); seed++ {
			specContent.RunCase(t, ContentCase{Target: name, Seed: seed*7919 + uint64(pbt.Seed()), Len: 200, Earlier: []uint64{seed * 31, seed*31 + 1}})
		}
	}
	specContent.Check(t)
}

// ---- concurrent-batch-decodes -------------------------------------------------------------------------
// Several receivers decode compressed log batches at the same time, each its own: what a receiver gets out of its
// batch is what is in its batch, whatever the others are doing.

type BatchCase struct {
	G      int    `json:"g"`      // receivers
	Recs   int    `json:"recs"`   // records per batch
	Line   int    `json:"line"`   // bytes per record content
	Rounds int    `json:"rounds"` // decodes per receiver
	Seed   uint64 `json:"seed"`
}

func runBatches(c BatchCase) *pbt.Result {
	type batch struct {
		enc  []byte
		want []string
	}
	bs := make([]batch, c.G)
	for g := range bs {
		var raw []byte
		for r := 0; r < c.Recs; r++ {
			lp := pack.NewLogSinkPack()
			lp.Category = fmt.Sprintf("cat-%d", g)
			lp.Line = int64(r)
			tag := fmt.Sprintf("w%03d-r%04d-%x-", g, r, c.Seed&0xffff)
			lp.Content = tag + strings.Repeat(string(rune('A'+(g+r)%26)), c.Line)
			lp.Tags.PutString("receiver", tag)
			raw = append(raw, pack.ToBytesPack(lp)...)
			bs[g].want = append(bs[g].want, lp.Content)
		}
		zp := pack.NewLogSinkZipPack()
		zp.RecordCount = c.Recs
		zp.SetRecords(raw, 0)
		if zp.Status != pack.ZIPPED {
			return pbt.Fail("harness: batch of %d bytes was not compressed", len(raw))
		}
		bs[g].enc = append([]byte(nil), pack.ToBytesPack(zp)...)
	}
	errs := make(chan error, c.G)
	var wg sync.WaitGroup
	var gate atomic.Int32
	for g := range bs {
		wg.Add(1)
		go func(g int) {
			defer wg.Done()
			for gate.Load() == 0 {
				runtime.Gosched()
			}
			for round := 0; round < c.Rounds; round++ {
				var recs []*pack.LogSinkPack
				var pv interface{}
				func() {
					defer func() { pv = recover() }()
					recs = pack.ToPack(append([]byte(nil), bs[g].enc...)).(*pack.LogSinkZipPack).GetRecords()
				}()
				if pv != nil {
					errs <- fmt.Errorf("receiver %d round %d: decoding its own valid %d-byte batch failed while %d other receivers were decoding theirs: %v", g, round, len(bs[g].enc), c.G-1, pv)
					return
				}
				if len(recs) != len(bs[g].want) {
					errs <- fmt.Errorf("receiver %d round %d: %d records decoded, the batch holds %d", g, round, len(recs), len(bs[g].want))
					return
				}
				for i, r := range recs {
					if r.Content != bs[g].want[i] {
						got := r.Content
						if len(got) > 40 {
							got = got[:40] + "…"
						}
						errs <- fmt.Errorf("receiver %d round %d: record %d of its batch decodes with content %q; the batch holds %q there - these bytes are not in its input (%d other receivers decoding at the same time)", g, round, i, got, bs[g].want[i][:20]+"…", c.G-1)
						return
					}
				}
			}
		}(g)
	}
	gate.Store(1)
	wg.Wait()
	close(errs)
	for e := range errs {
		return &pbt.Result{Err: e}
	}
	return &pbt.Result{NT: c.G >= 2, Classes: []string{fmt.Sprintf("receivers=%d", c.G)}}
}

var specBatches = pbt.Register(pbt.Spec[BatchCase]{
	Prop: "C04", Name: "concurrent-batch-decodes",
	Rule:  "2-12 receivers, each with its own compressed log batch (20-300 records of 10-400 content bytes, every record tagged with receiver and index), decode their batch 5-40 times through ToPack + GetRecords at the same time: every decode must succeed and yield exactly the records of that receiver's batch (bytes of another receiver's batch are bytes that are not in the input); non-trivial = every case; distinct by case",
	Quick: 30, Thorough: 2000,
	Draw: func(t *rapid.T) BatchCase {
		return BatchCase{G: rapid.IntRange(2, 12).Draw(t, "g"), Recs: rapid.SampledFrom([]int{20, 60, 150, 300}).Draw(t, "recs"), Line: rapid.SampledFrom([]int{10, 80, 400}).Draw(t, "line"),
			Rounds: rapid.IntRange(5, 40).Draw(t, "rounds"), Seed: rapid.Uint64().Draw(t, "seed")}
	},
	Run: runBatches,
})

func TestConcurrentBatchDecodes(t *testing.T) { specBatches.Check(t) }
