// C02 Tagged value codec round-trips every value type, nested to any depth.
package c02

import (
	"bytes"
	"fmt"
	"net"
	"testing"
	"time"

	wio "github.com/whatap/golib/io"
	"github.com/whatap/golib/lang/value"
	"pgregory.net/rapid"
	"verif/gen"
	"verif/gval"
	"verif/pbt"
	"verif/ref"
)

func TestMain(m *testing.M)   { pbt.Main(m, "C02") }
func TestReplay(t *testing.T) { pbt.Replay(t) }

type Case struct {
	V *ref.V `json:"v"`
}

func encodeGolib(g value.Value) []byte {
	o := wio.NewDataOutputX()
	value.WriteValue(o, g)
	return append([]byte(nil), o.ToByteArray()...)
}

func roundTrip(c Case) *pbt.Result {
	v := c.V
	g := gval.ToGolib(v)
	want := ref.ValueBytes(v)
	got := encodeGolib(g)
	if !bytes.Equal(got, want) {
		k := 0
		for k < len(got) && k < len(want) && got[k] == want[k] {
			k++
		}
		return pbt.Fail("WriteValue bytes differ from the reference encoder at offset %d: golib %d bytes …%x, reference %d bytes …%x", k, len(got), tailAt(got, k), len(want), tailAt(want, k))
	}
	// decode: exact input, and input followed by foreign bytes (must not be consumed)
	for _, extra := range [][]byte{nil, {0xAB, 0xCD, 0xEF}} {
		buf := append(append([]byte(nil), got...), extra...)
		in := wio.NewDataInputX(buf)
		d := value.ReadValue(in)
		if int(in.Available()) != len(extra) {
			return pbt.Fail("decoding consumed %d bytes of a %d-byte encoding (%d trailing foreign bytes, Available()=%d)", len(buf)-int(in.Available()), len(got), len(extra), in.Available())
		}
		if d == nil {
			return pbt.Fail("ReadValue returned nil")
		}
		if d.GetValueType() != v.T {
			return pbt.Fail("decoded type %d, wrote %d", d.GetValueType(), v.T)
		}
		view, err := gval.FromGolib(d)
		if err != nil {
			return pbt.Fail("decoded value is malformed: %v", err)
		}
		if diff := ref.DiffValue(v, view, "$"); diff != "" {
			return pbt.Fail("decoded value differs from the original at %s", diff)
		}
		re := encodeGolib(d)
		if !bytes.Equal(re, got) {
			return pbt.Fail("re-encoding the decoded value gives %d bytes, original encoding has %d", len(re), len(got))
		}
		// the decoded value owns its content: the receive buffer is reused for the next message
		for i := range buf {
			buf[i] = 0xA5
		}
		if view2, err := gval.FromGolib(d); err != nil || ref.DiffValue(v, view2, "$") != "" {
			return pbt.Fail("the decoded value changed when the buffer it was decoded from was overwritten (it shares memory with its input) at %s", ref.DiffValue(v, view2, "$"))
		}
	}
	// the map-typed entry points used by the packs
	if v.T == ref.TMap {
		o := wio.NewDataOutputX()
		value.WriteMapValue(o, g.(*value.MapValue))
		if mb := o.ToByteArray(); !bytes.Equal(mb, want) {
			return pbt.Fail("WriteMapValue gives %x…, WriteValue / the reference %x… (%d vs %d bytes)", tailAt(mb, 0), tailAt(want, 0), len(mb), len(want))
		}
		in := wio.NewDataInputX(append([]byte(nil), want...))
		m := value.ReadMapValue(in)
		if m == nil || in.Available() != 0 {
			return pbt.Fail("ReadMapValue returned %v and left %d bytes of a %d-byte map encoding", m, in.Available(), len(want))
		}
		if view, err := gval.FromGolib(m); err != nil || ref.DiffValue(v, view, "$") != "" {
			return pbt.Fail("ReadMapValue decodes a different map: %s", ref.DiffValue(v, view, "$"))
		}
	}
	// the reference decoder agrees
	r := ref.NewR(got)
	var info ref.DecodeInfo
	rv := ref.DecodeValue(r, &info)
	if r.Err != nil || r.Left() != 0 || info.NonCanonical {
		return pbt.Fail("reference decoder rejects golib's encoding: err=%v left=%d noncanonical=%v", r.Err, r.Left(), info.NonCanonical)
	}
	if diff := ref.DiffValue(v, rv, "$"); diff != "" {
		return pbt.Fail("reference decoder reads a different value at %s", diff)
	}
	// the connection entry point: the same bytes arriving over a connection in pieces, followed by one more byte
	if msg := viaConnection(v, got); msg != "" {
		return pbt.Fail("%s", msg)
	}
	types := map[byte]bool{}
	ref.Types(v, types)
	classes := []string{fmt.Sprintf("depth=%d", depthBucket(ref.Depth(v))), fmt.Sprintf("width=%s", widthBucket(ref.Width(v)))}
	for ty := range types {
		classes = append(classes, fmt.Sprintf("type=%d", ty))
	}
	nt := len(got) > 2
	return &pbt.Result{NT: nt, Classes: classes, Key: got}
}

// viaConnection decodes enc from a connection-backed input (net.Pipe; the peer writes enc and a sentinel byte in pieces
// whose size depends on the encoding only, then closes): the value must be the one encoded and the next byte the sentinel.
func viaConnection(v *ref.V, enc []byte) string {
	server, client := net.Pipe()
	defer client.Close()
	chunk := []int{1, 3, 64, 4096, 1 << 30}[len(enc)%5]
	if len(enc) > 4096 && chunk < 64 {
		chunk = 1000
	}
	go func() {
		defer server.Close()
		msg := append(append([]byte(nil), enc...), 0x7E)
		for off := 0; off < len(msg); off += chunk {
			end := off + chunk
			if end > len(msg) || end < 0 {
				end = len(msg)
			}
			if _, err := server.Write(msg[off:end]); err != nil {
				return
			}
		}
	}()
	var d value.Value
	var next byte
	returned, pv := pbt.WithTimeout(60*time.Second, func() {
		in := wio.NewDataInputNet(client)
		d = value.ReadValue(in)
		next = in.ReadByte()
	})
	if !returned {
		return fmt.Sprintf("ReadValue over a connection that delivers the %d-byte encoding in pieces of %d bytes did not return within 60 s", len(enc), chunk)
	}
	if pv != nil {
		return fmt.Sprintf("ReadValue over a connection (the %d-byte encoding in pieces of %d bytes) fails although the same bytes decode from memory: %v", len(enc), chunk, pv)
	}
	view, err := gval.FromGolib(d)
	if err != nil {
		return fmt.Sprintf("value decoded over a connection cannot be walked: %v", err)
	}
	if diff := ref.DiffValue(v, view, "$"); diff != "" {
		return "the value decoded over a connection differs from the original at " + diff
	}
	if next != 0x7E {
		return fmt.Sprintf("after ReadValue over a connection the next byte read is %#x, not the byte that follows the encoding (decoding did not consume exactly the encoding)", next)
	}
	return ""
}

func tailAt(b []byte, k int) []byte {
	if k > len(b) {
		k = len(b)
	}
	e := k + 12
	if e > len(b) {
		e = len(b)
	}
	return b[k:e]
}

func depthBucket(d int) int {
	switch {
	case d <= 3:
		return d
	case d <= 8:
		return 8
	}
	return 99
}

func widthBucket(w int) string {
	switch {
	case w == 0:
		return "0"
	case w == 1:
		return "1"
	case w <= 24:
		return "2-24"
	case w <= 75:
		return "25-75"
	case w <= 400:
		return "76-400(grown)"
	}
	return ">400"
}

var specRT = pbt.Register(pbt.Spec[Case]{
	Prop: "C02", Name: "roundtrip", Parallel: 8,
	Rule:  "rapid-generated values over all 20 type codes, recursive to depth 6 (quick) / 9 (thorough), container widths 0,1,2..24, 70..160 (past table growth), occasionally 400 / 40000; boundary-biased scalars, NaN payloads, colliding and negative int keys, empty string keys; non-trivial = encoding longer than 2 bytes (a container or multi-byte scalar); distinct by encoded bytes",
	Quick: 2500, Thorough: 150000,
	Draw: func(t *rapid.T) Case {
		return Case{V: gval.Value(gval.Opts{MaxDepth: pbt.Pick(6, 9), MaxWidth: 8, Wide: pbt.Pick(400, 40000), BigText: true}).Draw(t, "v")}
	},
	Run: roundTrip,
})

func TestRoundTrip(t *testing.T) { specRT.Check(t) }

// one generated value per type code per case, so that every type is exercised at top level often
var specPerType = pbt.Register(pbt.Spec[Case]{
	Prop: "C02", Name: "roundtrip-per-type", Parallel: 8,
	Rule:  "a top-level value of a type code drawn uniformly from the 20 registered codes (so each is exercised as the outermost value), same oracle; non-trivial = encoding longer than 2 bytes",
	Quick: 2000, Thorough: 100000,
	Draw: func(t *rapid.T) Case {
		ty := rapid.SampledFrom(ref.AllTypes).Draw(t, "type")
		return Case{V: gval.DrawOfType(t, gval.Opts{MaxDepth: 4, MaxWidth: 6, Wide: pbt.Pick(400, 32767), BigText: true}, ty, 4, true)}
	},
	Run: roundTrip,
})

func TestRoundTripPerType(t *testing.T) { specPerType.Check(t) }

func TestBoundaries(t *testing.T) {
	for _, i := range gen.Int64Boundaries {
		specRT.RunCase(t, Case{V: &ref.V{T: ref.TDecimal, I: i}})
		specRT.RunCase(t, Case{V: &ref.V{T: ref.TLong, I: i}})
		specRT.RunCase(t, Case{V: &ref.V{T: ref.TInt, I: int64(int32(i))}})
		specRT.RunCase(t, Case{V: &ref.V{T: ref.TList, L: []*ref.V{{T: ref.TDecimal, I: i}, {T: ref.TTextHash, I: int64(int32(i))}}}})
	}
	for _, n := range []int{0, 1, 253, 254, 255, 256, 65535, 65536, 70000} {
		b := make([]byte, n)
		for i := range b {
			b[i] = byte(i * 13)
		}
		specRT.RunCase(t, Case{V: &ref.V{T: ref.TBlob, S: gen.Hex(b)}})
		specRT.RunCase(t, Case{V: &ref.V{T: ref.TText, S: gen.Hex(b)}})
		specRT.RunCase(t, Case{V: &ref.V{T: ref.TMap, K: []string{gen.Hex(b)}, L: []*ref.V{{T: ref.TNull}}}})
	}
	for _, n := range []int{0, 1, 74, 75, 76, 77, 151, 152, 153, 154, 400, 32767} {
		a := make([]int64, n)
		ta := make([]string, n)
		for i := range a {
			a[i] = int64(i*2654435761) >> 3
			ta[i] = gen.Hex([]byte(fmt.Sprintf("s%d", i)))
		}
		ia := make([]int64, n)
		for i := range ia {
			ia[i] = int64(int32(a[i]))
		}
		specRT.RunCase(t, Case{V: &ref.V{T: ref.TLongArr, N: a}})
		specRT.RunCase(t, Case{V: &ref.V{T: ref.TIntArr, N: ia}})
		specRT.RunCase(t, Case{V: &ref.V{T: ref.TTextArr, TA: ta}})
		// maps/lists of exactly n entries, around the growth thresholds 75 / 152 of a 101-bucket table
		m := &ref.V{T: ref.TMap}
		im := &ref.V{T: ref.TIntMap}
		l := &ref.V{T: ref.TList}
		for i := 0; i < n && n <= 400; i++ {
			m.K = append(m.K, ta[i])
			m.L = append(m.L, ref.DecV(int64(i)))
			im.KI = append(im.KI, int32(i*101-7))
			im.L = append(im.L, ref.TextV(fmt.Sprint(i)))
			l.L = append(l.L, ref.DecV(a[i]))
		}
		specRT.RunCase(t, Case{V: m})
		specRT.RunCase(t, Case{V: im})
		specRT.RunCase(t, Case{V: l})
	}
}

// Deep nesting: "nested to any depth".
type DeepCase struct {
	Depth int `json:"depth"`
}

var specDeep = pbt.Register(pbt.Spec[DeepCase]{
	Prop: "C02", Name: "deep-nesting",
	Rule:  "a value nested d levels deep (alternating list / string map / int map around a decimal), d drawn from 1..600 (quick) / 1..20000 (thorough); same round-trip oracle; non-trivial = d >= 10; distinct by d",
	Quick: 60, Thorough: 600,
	Draw: func(t *rapid.T) DeepCase {
		return DeepCase{Depth: rapid.OneOf(rapid.IntRange(1, 40), rapid.IntRange(1, pbt.Pick(600, 20000))).Draw(t, "depth")}
	},
	Run: func(c DeepCase) *pbt.Result {
		r := roundTrip(Case{V: gval.Deep(c.Depth)})
		if r.Err != nil {
			return r
		}
		return &pbt.Result{NT: c.Depth >= 10, Classes: []string{fmt.Sprintf("depth>=%d", c.Depth/1000*1000)}, Key: []byte(fmt.Sprint(c.Depth))}
	},
})

func TestDeep(t *testing.T) { specDeep.Check(t) }

// ---- native fuzz target (thorough tier) --------------------------------------

// checkArbitrary is the oracle for arbitrary bytes: it never fails on a merely invalid input.
func checkArbitrary(data []byte) error {
	r := ref.NewR(data)
	var info ref.DecodeInfo
	rv := ref.DecodeValue(r, &info)
	refOK := r.Err == nil
	var g value.Value
	var consumed int
	var perr interface{}
	func() {
		defer func() { perr = recover() }()
		in := wio.NewDataInputX(append([]byte(nil), data...))
		g = value.ReadValue(in)
		consumed = len(data) - int(in.Available())
	}()
	if !refOK {
		return nil // invalid input: C02 does not constrain the decoder (C04 does)
	}
	canonical := !info.NonCanonical && !info.DupKeys
	if perr != nil {
		if canonical && info.MaxDepth < 2000 {
			return fmt.Errorf("golib rejects a canonical encoding the reference decodes (%d bytes consumed by the reference): panic %v", r.Pos, perr)
		}
		return nil
	}
	if consumed != r.Pos {
		return fmt.Errorf("golib consumed %d bytes, the reference %d", consumed, r.Pos)
	}
	view, err := gval.FromGolib(g)
	if err != nil {
		return fmt.Errorf("decoded value is malformed: %v", err)
	}
	if d := ref.DiffValue(rv, view, "$"); d != "" {
		return fmt.Errorf("golib and the reference decode different values at %s", d)
	}
	if canonical {
		re := encodeGolib(g)
		if !bytes.Equal(re, data[:consumed]) {
			return fmt.Errorf("re-encoding a canonical input differs: %x vs %x", re, data[:consumed])
		}
	}
	return nil
}

func FuzzReadValue(f *testing.F) {
	for _, v := range []*ref.V{
		gval.Deep(5), ref.DecV(-129), ref.TextV("hello"),
		{T: ref.TMap, K: []string{gen.Hex([]byte("a")), gen.Hex([]byte(""))}, L: []*ref.V{ref.DecV(1), {T: ref.TIntArr, N: []int64{1, -2, 3}}}},
		{T: ref.TIntMap, KI: []int32{1, 102, -5}, L: []*ref.V{{T: ref.TNull}, {T: ref.TDSum, N: []int64{1, 2, 3, 4}}, {T: ref.TTextArr, TA: []string{"61", ""}}}},
		{T: ref.TList, L: []*ref.V{{T: ref.TBool, I: 1}, {T: ref.TLong, I: -1}, {T: ref.TFloat, I: 0x7fc00000}, {T: ref.TIP4, S: "7f000001"}, {T: ref.TBlob, S: "00ff"}}},
	} {
		f.Add(ref.ValueBytes(v))
	}
	f.Add([]byte{70, 0xfc, 0, 0, 0, 0x5a})
	f.Add([]byte{80, 4, 0x7f, 0xff, 0xff, 0xff})
	f.Add([]byte{71, 0x7f, 0xff})
	f.Add([]byte{60, 254, 0x7f, 0xff, 0xff, 0xff})
	f.Fuzz(func(t *testing.T, data []byte) {
		if len(data) > 1<<16 {
			return
		}
		if err := checkArbitrary(data); err != nil {
			t.Fatal(err)
		}
	})
}

// The same oracle driven by rapid over mutated valid encodings (runs in both tiers, deterministic).
type MutCase struct {
	V    *ref.V `json:"v"`
	Muts []Mut  `json:"muts"`
}
type Mut struct {
	Pos int  `json:"pos"` // index into the encoding modulo its length
	Val byte `json:"val"`
	Cut bool `json:"cut,omitempty"` // truncate at Pos instead of overwriting
}

var specMut = pbt.Register(pbt.Spec[MutCase]{
	Prop: "C02", Name: "mutated-encodings-agree",
	Rule:  "valid encodings with 1-3 bytes overwritten or a truncation: whenever the independent reference decoder accepts the bytes, golib must decode the same value from the same number of bytes (and re-encode canonically formed input identically); inputs the reference rejects are not constrained here (C04); non-trivial = reference accepts the mutated bytes and they differ from the original; distinct by mutated bytes",
	Quick: 3000, Thorough: 200000,
	Draw: func(t *rapid.T) MutCase {
		c := MutCase{V: gval.Value(gval.Opts{MaxDepth: 4, MaxWidth: 5}).Draw(t, "v")}
		n := rapid.IntRange(1, 3).Draw(t, "nmut")
		for i := 0; i < n; i++ {
			c.Muts = append(c.Muts, Mut{Pos: rapid.IntRange(0, 1<<20).Draw(t, "pos"),
				Val: rapid.OneOf(rapid.Byte(), rapid.SampledFrom([]byte{0, 1, 2, 3, 4, 5, 8, 9, 70, 80, 81, 254, 255})).Draw(t, "val"),
				Cut: rapid.IntRange(0, 9).Draw(t, "cut") == 0})
		}
		return c
	},
	Run: func(c MutCase) *pbt.Result {
		orig := ref.ValueBytes(c.V)
		data := append([]byte(nil), orig...)
		for _, m := range c.Muts {
			if len(data) == 0 {
				break
			}
			p := m.Pos % len(data)
			if m.Cut {
				data = data[:p]
			} else {
				data[p] = m.Val
			}
		}
		// keep the memory clause out of this check: a hostile count is C04's business
		if err := checkArbitraryGuarded(data); err != nil {
			return &pbt.Result{Err: err}
		}
		r := ref.NewR(data)
		var info ref.DecodeInfo
		ref.DecodeValue(r, &info)
		ok := r.Err == nil && !bytes.Equal(data, orig)
		cl := "reference-rejects"
		if r.Err == nil {
			cl = "reference-accepts"
		}
		return &pbt.Result{NT: ok, Classes: []string{cl}, Key: data}
	},
})

func checkArbitraryGuarded(data []byte) error { return checkArbitrary(data) }

func TestMutatedEncodings(t *testing.T) { specMut.Check(t) }

// ---- several values alive at the same time --------------------------------------------------

// TogetherCase: all values are built and encoded first, then all are decoded, and only then compared.
// A value (or its encoding, or its decoded copy) must not share state with values handled after it.
type TogetherCase struct {
	Vs []*ref.V `json:"vs"`
}

func encodeHeld(g value.Value) []byte {
	o := wio.NewDataOutputX()
	value.WriteValue(o, g)
	return o.ToByteArray() // exactly the slice the encoder hands out
}

func runTogether(c TogetherCase) *pbt.Result {
	n := len(c.Vs)
	gs := make([]value.Value, n)
	held := make([][]byte, n)
	for i, v := range c.Vs {
		gs[i] = gval.ToGolib(v)
	}
	for i := range gs {
		held[i] = encodeHeld(gs[i])
	}
	ds := make([]value.Value, n)
	for i := range gs {
		ds[i] = value.ReadValue(wio.NewDataInputX(append([]byte(nil), held[i]...)))
	}
	types := map[byte]bool{}
	for i, v := range c.Vs {
		want := ref.ValueBytes(v)
		if !bytes.Equal(held[i], want) {
			return pbt.Fail("value %d of %d: the bytes WriteValue produced no longer equal the reference encoding after the other values were encoded and decoded (%d vs %d bytes)", i, n, len(held[i]), len(want))
		}
		if ds[i] == nil {
			return pbt.Fail("value %d of %d: ReadValue returned nil", i, n)
		}
		view, err := gval.FromGolib(ds[i])
		if err != nil {
			return pbt.Fail("value %d of %d: decoded value is malformed: %v", i, n, err)
		}
		if diff := ref.DiffValue(v, view, "$"); diff != "" {
			return pbt.Fail("value %d of %d: after all %d values were decoded, this decoded value differs from its original at %s", i, n, n, diff)
		}
		if orig, err := gval.FromGolib(gs[i]); err != nil || ref.DiffValue(v, orig, "$") != "" {
			return pbt.Fail("value %d of %d: the value that was encoded has changed while the others were encoded and decoded", i, n)
		}
		if re := encodeHeld(ds[i]); !bytes.Equal(re, want) {
			return pbt.Fail("value %d of %d: re-encoding the decoded value gives %d bytes, the reference has %d", i, n, len(re), len(want))
		}
		ref.Types(v, types)
	}
	var classes []string
	for ty := range types {
		classes = append(classes, fmt.Sprintf("type=%d", ty))
	}
	return &pbt.Result{NT: n >= 2, Classes: classes}
}

var specTogether = pbt.Register(pbt.Spec[TogetherCase]{
	Prop: "C02", Name: "values-alive-together", Parallel: 8,
	Rule:  "2-5 values (any type, depth <= 4; one time in three all of one scalar or container type) are all built, then all encoded (the byte slices are kept exactly as handed out), then all decoded, and only then compared: every kept encoding still equals the reference encoding, every decoded value and every original still equals its model, re-encoding is identical; non-trivial = every case; distinct by case",
	Quick: 3000, Thorough: 150000,
	Draw: func(t *rapid.T) TogetherCase {
		n := rapid.IntRange(2, 5).Draw(t, "n")
		o := gval.Opts{MaxDepth: 4, MaxWidth: 5, BigText: false}
		var c TogetherCase
		if rapid.IntRange(0, 2).Draw(t, "sametype") == 0 {
			ty := rapid.SampledFrom(ref.AllTypes).Draw(t, "type")
			for i := 0; i < n; i++ {
				c.Vs = append(c.Vs, gval.DrawOfType(t, o, ty, 3, true))
			}
			return c
		}
		for i := 0; i < n; i++ {
			c.Vs = append(c.Vs, gval.Value(o).Draw(t, "v"))
		}
		return c
	},
	Run: runTogether,
})

func TestValuesAliveTogether(t *testing.T) { specTogether.Check(t) }

// ---- encode, change something inside, encode again -------------------------------------------------------

type ChangeCase struct {
	V     *ref.V `json:"v"`
	Steps []int  `json:"steps"` // each step picks a node of the value (index into a pre-order walk, modulo) and changes it
}

// nodes lists every value reachable inside g (pre-order), g included.
func nodes(g value.Value, out *[]value.Value) {
	*out = append(*out, g)
	switch x := g.(type) {
	case *value.ListValue:
		for i := 0; i < x.Size(); i++ {
			nodes(x.Get(i), out)
		}
	case *value.MapValue:
		for en := x.Keys(); en.HasMoreElements(); {
			nodes(x.Get(en.NextString()), out)
		}
	case *value.IntMapValue:
		for en := x.Keys(); en.HasMoreElements(); {
			nodes(x.Get(en.NextInt()), out)
		}
	}
}

// changeNode modifies one node in place through its public fields / methods; it reports what it did.
func changeNode(n value.Value, k int) string {
	switch x := n.(type) {
	case *value.MapValue:
		if k%3 == 2 && x.Size() > 0 {
			// another value under a key that is there: the number of entries stays what it was
			var keys []string
			for en := x.Keys(); en.HasMoreElements(); {
				keys = append(keys, en.NextString())
			}
			x.Put(keys[k%len(keys)], value.NewTextValue(fmt.Sprintf("replaced%d", k)))
			return "map.Put-existing-key"
		}
		if k%2 == 0 {
			x.NewList(fmt.Sprintf("added%d", k)).AddLong(int64(k))
			return "map.NewList"
		}
		x.Put(fmt.Sprintf("added%d", k), value.NewDecimalValue(int64(k)))
		return "map.Put"
	case *value.IntMapValue:
		if k%3 == 2 && x.Size() > 0 {
			var keys []int32
			for en := x.Keys(); en.HasMoreElements(); {
				keys = append(keys, en.NextInt())
			}
			x.Put(keys[k%len(keys)], value.NewDecimalValue(int64(k)))
			return "intmap.Put-existing-key"
		}
		x.Put(int32(700000+k), value.NewTextValue("added"))
		return "intmap.Put"
	case *value.ListValue:
		if k%2 == 0 || x.Size() == 0 {
			x.Add(value.NewDecimalValue(int64(k)))
			return "list.Add"
		}
		x.Set(k%x.Size(), value.NewTextValue("set"))
		return "list.Set"
	case *value.DecimalValue:
		x.Val += int64(k) + 1
		return "decimal.Val"
	case *value.TextValue:
		x.Val += "+"
		return "text.Val"
	case *value.BoolValue:
		x.Val = !x.Val
		return "bool.Val"
	case *value.BlobValue:
		x.Val = append(append([]byte(nil), x.Val...), byte(k))
		return "blob.Val"
	}
	return ""
}

var specChange = pbt.Register(pbt.Spec[ChangeCase]{
	Prop: "C02", Name: "encode-change-encode",
	Rule:  "a generated container value (depth <= 4) is encoded; then 1-4 times one node anywhere inside it (a nested map, list, int map or scalar; chosen by pre-order index) is changed in place through the public API (NewList, Put, Add, Set, or the scalar's Val field) and the whole value is encoded again; every encoding must equal the reference encoding of what the public accessors show at that moment, and must decode to it; non-trivial = at least one change below the top level; distinct by case",
	Quick: 2500, Thorough: 150000,
	Draw: func(t *rapid.T) ChangeCase {
		ty := rapid.SampledFrom([]byte{ref.TMap, ref.TMap, ref.TList, ref.TIntMap}).Draw(t, "type")
		return ChangeCase{V: gval.DrawOfType(t, gval.Opts{MaxDepth: 4, MaxWidth: 4}, ty, 4, true),
			Steps: rapid.SliceOfN(rapid.IntRange(0, 200), 1, 4).Draw(t, "steps")}
	},
	Run: func(c ChangeCase) *pbt.Result {
		g := gval.ToGolib(c.V)
		deep := 0
		classes := map[string]bool{}
		check := func(when string) *pbt.Result {
			view, err := gval.FromGolib(g)
			if err != nil {
				return pbt.Fail("%s: the value cannot be walked: %v", when, err)
			}
			want := ref.ValueBytes(view)
			got := encodeGolib(g)
			if !bytes.Equal(got, want) {
				k := 0
				for k < len(got) && k < len(want) && got[k] == want[k] {
					k++
				}
				return pbt.Fail("%s: WriteValue differs from the reference encoding of what the accessors show, at offset %d (%d vs %d bytes; golib …%x, reference …%x)", when, k, len(got), len(want), tailAt(got, k), tailAt(want, k))
			}
			d := value.ReadValue(wio.NewDataInputX(append([]byte(nil), got...)))
			dv, err := gval.FromGolib(d)
			if err != nil || ref.DiffValue(view, dv, "$") != "" {
				return pbt.Fail("%s: the encoding decodes to something else at %s", when, ref.DiffValue(view, dv, "$"))
			}
			return nil
		}
		if r := check("first encoding"); r != nil {
			return r
		}
		// looking at a value is not changing it: after every node was compared with its counterpart in an equal copy and in
		// another value (Equals, CompareTo in both directions), the value encodes to the same bytes as before
		lookAt := func(when string) *pbt.Result {
			before := encodeGolib(g)
			var mine, theirs, others []value.Value
			nodes(g, &mine)
			nodes(gval.ToGolib(c.V), &theirs)
			nodes(gval.ToGolib(&ref.V{T: ref.TMap, K: []string{gen.Hex([]byte("zz")), gen.Hex([]byte("aa")), gen.Hex([]byte("mm"))}, L: []*ref.V{{T: ref.TNull}, {T: ref.TNull}, {T: ref.TNull}}}), &others)
			for i, n := range mine {
				func() {
					defer func() { recover() }() // the laws of comparison are C20's business
					o := others[i%len(others)]
					if i < len(theirs) {
						n.Equals(theirs[i])
						n.CompareTo(theirs[i])
						theirs[i].CompareTo(n)
					}
					n.CompareTo(o)
					o.CompareTo(n)
					n.Equals(o)
				}()
			}
			if after := encodeGolib(g); !bytes.Equal(before, after) {
				k := 0
				for k < len(before) && k < len(after) && before[k] == after[k] {
					k++
				}
				return pbt.Fail("%s: the value was only compared (Equals / CompareTo on each of its %d nodes) and encodes differently afterwards, from offset %d on (%d vs %d bytes; before …%x, after …%x)", when, len(mine), k, len(before), len(after), tailAt(before, k), tailAt(after, k))
			}
			return nil
		}
		if r := lookAt("after the first encoding"); r != nil {
			return r
		}
		// the same object twice in one message: as two elements of a list, and written twice to one output
		{
			one := encodeGolib(g)
			l := value.NewListValue(nil)
			l.Add(g)
			l.Add(value.NewDecimalValue(7))
			l.Add(g)
			wl := ref.NewW()
			wl.U8(ref.TList)
			wl.Dec(3)
			wl.Raw(one)
			wl.Raw(ref.ValueBytes(&ref.V{T: ref.TDecimal, I: 7}))
			wl.Raw(one)
			if got := encodeGolib(l); !bytes.Equal(got, wl.B) {
				return pbt.Fail("a list holding the same value object twice (with a number in between) encodes to %d bytes; twice the value's own encoding (%d bytes each) inside the list frame makes %d", len(got), len(one), len(wl.B))
			}
			o := wio.NewDataOutputX()
			value.WriteValue(o, g)
			value.WriteValue(o, g)
			if got := o.ToByteArray(); !bytes.Equal(got, append(append([]byte(nil), one...), one...)) {
				return pbt.Fail("the same value written twice to one output gives %d bytes, not twice its %d-byte encoding", len(got), len(one))
			}
		}
		hist := ""
		for i, st := range c.Steps {
			var ns []value.Value
			nodes(g, &ns)
			idx := st % len(ns)
			what := changeNode(ns[idx], st)
			if what == "" {
				continue
			}
			if idx > 0 {
				deep++
			}
			classes[what] = true
			hist += " " + what
			if r := check(fmt.Sprintf("after change %d (%s; node %d of %d)", i+1, hist, idx, len(ns))); r != nil {
				return r
			}
		}
		var cl []string
		for k := range classes {
			cl = append(cl, k)
		}
		return &pbt.Result{NT: deep > 0, Classes: cl}
	},
})

func TestEncodeChangeEncode(t *testing.T) { specChange.Check(t) }
