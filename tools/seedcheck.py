#!/usr/bin/env python3
"""tools/seedcheck.py <change-dir> <seed-id>

Confirms a seeded breakage delivered by a mutation sub-agent and, if it is
confirmed, stores it as /verif/seeded/<seed-id>/ (patch.diff, demonstration
files, meta.json incl. what was run here) and runs the property's check
against it.

Confirmation, all in a scratch git worktree of /repo (removed afterwards):
  1. the patch applies and the library builds (with and without -tags verif);
  2. the 34 baseline tests still pass with the change;
  3. the demonstration FAILS with the change and PASSES without it.
Then the check: ./check <Cxx> --tier quick with VERIF_REPO pointing at the
changed worktree (and --tier thorough with VERIF_SCALE=0.2 if quick misses).
"""
import json, os, shutil, subprocess, sys, time

VERIF = os.path.dirname(os.path.dirname(os.path.abspath(__file__)))
ENV = dict(os.environ, GOFLAGS="-mod=mod", GOPROXY="off", GOSUMDB="off", GOTOOLCHAIN="local", TZ="UTC")
BASE = set(json.load(open("/root/.vp/BASELINE.json"))["stable_pass"])


def sh(cmd, cwd, timeout=1500, env=None):
    p = subprocess.run(cmd, cwd=cwd, shell=isinstance(cmd, str), env=env or ENV, stdout=subprocess.PIPE, stderr=subprocess.STDOUT, text=True, timeout=timeout)
    return p.returncode, p.stdout


def baseline(wt):
    rc, out = sh("go test -vet=off -count=1 -json -timeout 25m ./...", wt)
    res = {}
    for l in out.splitlines():
        try:
            e = json.loads(l)
        except Exception:
            continue
        if e.get("Test") and e.get("Action") in ("pass", "fail") and "/" not in e["Test"]:
            res[e["Package"] + "::" + e["Test"]] = e["Action"]
    failed = sorted(t for t in BASE if res.get(t) != "pass")
    return failed


def place_demo(change, wt, meta, remove=False):
    for f in meta.get("demo_files", []):
        dst = os.path.join(wt, f["dst"])
        if remove:
            if os.path.exists(dst):
                os.remove(dst)
        else:
            os.makedirs(os.path.dirname(dst), exist_ok=True)
            shutil.copy(os.path.join(change, f["src"]), dst)


def main():
    change, sid = os.path.abspath(sys.argv[1]), sys.argv[2]
    meta = json.load(open(os.path.join(change, "meta.json")))
    prop = meta["property"]
    wt = "/tmp/seedconfirm-%s" % sid
    subprocess.run(["git", "-C", "/repo", "worktree", "remove", "--force", wt], stdout=subprocess.DEVNULL, stderr=subprocess.DEVNULL)
    shutil.rmtree(wt, ignore_errors=True)
    subprocess.run(["git", "-C", "/repo", "worktree", "add", "-q", "--detach", wt, "HEAD"], check=True)
    report = {"seed": sid, "property": prop, "ran": []}
    ok = True
    try:
        if not meta.get("demo_cmd"):
            report["verdict"] = "rejected: no demo_cmd in meta.json"
            ok = False
        # demo on the unchanged tree
        if ok:
            place_demo(change, wt, meta)
            rc0, out0 = sh(meta["demo_cmd"], wt, timeout=900)
            report["ran"].append("demo on unchanged tree: exit %d" % rc0)
            if rc0 != 0:
                report["verdict"] = "rejected: the demonstration fails on the unchanged tree"
                report["demo_output_unchanged"] = out0[-1500:]
                ok = False
            place_demo(change, wt, meta, remove=True)
        if ok:
            rc, out = sh(["git", "apply", os.path.join(change, "patch.diff")], wt)
            if rc != 0:
                rc, out = sh(["patch", "-p1", "-s", "-i", os.path.join(change, "patch.diff")], wt)
            report["ran"].append("apply patch: exit %d" % rc)
            if rc != 0:
                report["verdict"] = "rejected: patch does not apply: " + out[-300:]
                ok = False
        if ok:
            rc, out = sh("go build ./... && go build -tags verif ./... && go vet ./... >/dev/null 2>&1; go build ./...", wt)
            report["ran"].append("go build (with and without -tags verif): exit %d" % rc)
            if rc != 0:
                report["verdict"] = "rejected: does not build: " + out[-300:]
                ok = False
        if ok:
            failed = baseline(wt)
            report["ran"].append("baseline suite with the change: %d of %d stable tests pass" % (len(BASE) - len(failed), len(BASE)))
            if failed:
                report["verdict"] = "rejected: existing tests fail with the change: %s" % failed
                ok = False
            # the baseline tests write log files into the tree
            sh("git clean -fdq -- logger", wt)
        if ok:
            place_demo(change, wt, meta)
            rc1, out1 = sh(meta["demo_cmd"], wt, timeout=900)
            report["ran"].append("demo with the change: exit %d" % rc1)
            place_demo(change, wt, meta, remove=True)
            if rc1 == 0:
                report["verdict"] = "rejected: the demonstration passes with the change"
                ok = False
            else:
                report["demo_output_changed"] = out1[-800:]
        if ok:
            report["verdict"] = "confirmed"
            # run the property's check against the changed tree
            e = dict(os.environ, VERIF_REPO=wt, VERIF_SELFTEST="1", VERIF_SHRINKTIME="3s",
                     VERIF_EVIDENCE_DIR=os.path.join(VERIF, ".build", "seed-evidence"), VERIF_REPLAYS_DIR=os.path.join(VERIF, ".build", "seed-replays"))
            t0 = time.time()
            p = subprocess.run([os.path.join(VERIF, "check"), prop, "--tier", "quick"], env=e, stdout=subprocess.PIPE, stderr=subprocess.STDOUT, text=True)
            caught = p.returncode == 1 and "VIOLATION property=" in p.stdout
            report["check_quick"] = {"exit": p.returncode, "caught": caught, "seconds": round(time.time() - t0, 1),
                                     "first_violation": next((l for l in p.stdout.splitlines() if l.strip().startswith("check=")), "")[:400]}
            if not caught:
                e["VERIF_SCALE"] = "0.2"
                t0 = time.time()
                p = subprocess.run([os.path.join(VERIF, "check"), prop, "--tier", "thorough"], env=e, stdout=subprocess.PIPE, stderr=subprocess.STDOUT, text=True)
                caught2 = p.returncode == 1 and "VIOLATION property=" in p.stdout
                report["check_thorough_scaled_0.2"] = {"exit": p.returncode, "caught": caught2, "seconds": round(time.time() - t0, 1),
                                                       "first_violation": next((l for l in p.stdout.splitlines() if l.strip().startswith("check=")), "")[:400]}
            shutil.rmtree(os.path.join(VERIF, ".build", "seed-replays"), ignore_errors=True)
            dst = os.path.join(VERIF, "seeded", sid)
            shutil.rmtree(dst, ignore_errors=True)
            os.makedirs(dst)
            shutil.copy(os.path.join(change, "patch.diff"), os.path.join(dst, "patch.diff"))
            for f in meta.get("demo_files", []):
                shutil.copy(os.path.join(change, f["src"]), os.path.join(dst, os.path.basename(f["src"])))
            if os.path.exists(os.path.join(change, "demo.md")):
                shutil.copy(os.path.join(change, "demo.md"), os.path.join(dst, "demo.md"))
            meta2 = dict(meta)
            meta2["confirmed_by_lead"] = report
            json.dump(meta2, open(os.path.join(dst, "meta.json"), "w"), indent=1, ensure_ascii=False)
    finally:
        subprocess.run(["git", "-C", "/repo", "worktree", "remove", "--force", wt], stdout=subprocess.DEVNULL, stderr=subprocess.DEVNULL)
        shutil.rmtree(wt, ignore_errors=True)
    print(json.dumps(report, indent=1, ensure_ascii=False))


if __name__ == "__main__":
    main()
