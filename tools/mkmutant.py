#!/usr/bin/env python3
"""tools/mkmutant.py <Cxx> <name> <file-in-repo> <old> <new> [<old2> <new2> ...]
Writes mutants/<Cxx>/<name>.patch: a unified diff (-p1) replacing the first
occurrence of each old string (must occur) in /repo/<file>."""
import difflib, os, sys
prop, name, rel = sys.argv[1:4]
pairs = sys.argv[4:]
src = open(os.path.join("/repo", rel)).read()
dst = src
for i in range(0, len(pairs), 2):
    old, new = pairs[i].replace("\\n", "\n").replace("\\t", "\t"), pairs[i+1].replace("\\n", "\n").replace("\\t", "\t")
    if old not in dst:
        sys.exit("old string not found: %r" % old)
    dst = dst.replace(old, new, 1)
d = "".join(difflib.unified_diff(src.splitlines(True), dst.splitlines(True), "a/" + rel, "b/" + rel))
out = os.path.join(os.path.dirname(os.path.dirname(os.path.abspath(__file__))), "mutants", prop)
os.makedirs(out, exist_ok=True)
open(os.path.join(out, name + ".patch"), "w").write(d)
print("wrote", os.path.join(out, name + ".patch"))
