#!/usr/bin/env python3
"""mkseedprompts.py <round> : writes /tmp/seed<round>/prompt-Cxx.txt for every property and creates the scratch
worktrees /tmp/seedwt<round>-Cxx. The prompt holds the property text only (nothing from /verif's machinery) plus one
line per change earlier rounds already produced, so that a new round looks elsewhere."""
import json, glob, os, subprocess, sys
rnd = sys.argv[1]
props = [json.loads(l) for l in open('/verif/properties.jsonl') if l.strip()]
os.makedirs(f'/tmp/seed{rnd}', exist_ok=True)
TEMPLATE = open('/verif/tools/seedprompt.txt').read()
for p in props:
    pid = p['id']
    tried = []
    for f in sorted(glob.glob(f'/verif/seeded/{pid}-s*/meta.json'), key=lambda x: int(x.split('-s')[-1].split('/')[0])):
        tried.append('  - ' + json.load(open(f))['summary'].replace('\n', ' '))
    txt = TEMPLATE.replace('@WT@', f'/tmp/seedwt{rnd}-{pid}').replace('@OUT@', f'/tmp/seedout{rnd}-{pid}').replace('@PID@', pid)
    txt = txt.replace('@PROPERTY@', json.dumps(p, indent=1, ensure_ascii=False)).replace('@TRIED@', '\n'.join(tried))
    open(f'/tmp/seed{rnd}/prompt-{pid}.txt', 'w').write(txt)
    wt = f'/tmp/seedwt{rnd}-{pid}'
    if not os.path.isdir(wt):
        subprocess.run(['git', '-C', '/repo', 'worktree', 'add', '--detach', '-f', wt, 'HEAD'], check=True, stdout=subprocess.DEVNULL, stderr=subprocess.DEVNULL)
print('prompts written for', len(props), 'properties')
