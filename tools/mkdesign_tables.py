#!/usr/bin/env python3
"""Regenerates the tables between the SENS markers of DESIGN.md from mutants/ and seeded/."""
import glob, json, os, re
V = os.path.dirname(os.path.dirname(os.path.abspath(__file__)))
out = []
out.append("### 11.1 Own mutants (`./check Cxx --selftest`, quick tier, all caught)\n")
out.append("| property | mutants (each compiles and passes the 34 baseline tests; applied to a scratch copy, quick tier must report a VIOLATION) |")
out.append("|---|---|")
for d in sorted(glob.glob(os.path.join(V, "mutants", "C*"))):
    names = sorted(os.path.basename(p)[:-6] for p in glob.glob(d + "/*.patch"))
    out.append("| %s | %d: %s |" % (os.path.basename(d), len(names), ", ".join(names)))
out.append("")
out.append("### 11.2 Independently seeded breakages (`seeded/<id>/`)\n")
out.append("Each was written by a fresh sub-agent that saw only the property text and its own scratch worktree, and was confirmed here (`tools/seedcheck.py`: patch applies, builds with and without `-tags verif`, 34 baseline tests pass, demonstration fails with the change and passes without) before the check was run against it.\n")
out.append("| seed | what was changed / what it needs to manifest | caught by (first violation reported) | tier |")
out.append("|---|---|---|---|")
tot = caught_q = caught_t = superseded = 0
for d in sorted(glob.glob(os.path.join(V, "seeded", "*"))):
    try:
        m = json.load(open(os.path.join(d, "meta.json")))
    except Exception:
        continue
    r = m.get("confirmed_by_lead", {})
    q = r.get("check_quick", {})
    t = r.get("check_thorough_scaled_0.2", {})
    tot += 1
    if q.get("caught"):
        caught_q += 1
        tier = "quick (%ss)" % q.get("seconds")
        fv = q.get("first_violation", "")
    elif t.get("caught"):
        caught_t += 1
        tier = "thorough"
        fv = t.get("first_violation", "")
    elif m.get("superseded_by_fix"):
        superseded += 1
        tier = "superseded"
        fv = "no longer applicable: " + m["superseded_by_fix"]
    else:
        tier = "**missed**"
        fv = ""
    note = m.get("lead_note", "")
    fv = re.sub(r"\s+", " ", fv).strip().replace("|", "/")[:(400 if tier == "superseded" else 170)]
    what = (m.get("summary", "") + " — needs: " + m.get("needs_to_manifest", "")).replace("|", "/")
    what = re.sub(r"\s+", " ", what)[:330]
    out.append("| %s | %s | %s %s | %s |" % (os.path.basename(d), what, fv, ("(" + note + ")") if note else "", tier))
out.append("")
out.append("Totals: %d confirmed seeded breakages; %d caught by the quick tier, %d more by the thorough tier, %d made inapplicable by the repair of the defect its check found (F49), %d missed.\n" % (tot, caught_q, caught_t, superseded, tot - caught_q - caught_t - superseded))
txt = "\n".join(out)
p = os.path.join(V, "DESIGN.md")
s = open(p).read()
a, b = "<!-- SENS-BEGIN -->", "<!-- SENS-END -->"
i, j = s.index(a), s.index(b)
s = s[:i + len(a)] + "\n" + txt + "\n" + s[j:]
open(p, "w").write(s)
print("tables regenerated: %d seeds" % tot)
