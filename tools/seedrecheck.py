#!/usr/bin/env python3
"""tools/seedrecheck.py <seed-id> [...]: re-runs the property's quick check against stored seeded breakages (scratch
worktree of /repo with the seed's patch applied, removed afterwards) and records the result in the seed's meta.json."""
import json, os, shutil, subprocess, sys, time
VERIF = os.path.dirname(os.path.dirname(os.path.abspath(__file__)))
rc_all = 0
for sid in sys.argv[1:]:
    d = os.path.join(VERIF, "seeded", sid)
    meta = json.load(open(os.path.join(d, "meta.json")))
    prop = meta["property"]
    wt = "/tmp/seedre-%s" % sid
    subprocess.run(["git", "-C", "/repo", "worktree", "remove", "--force", wt], stdout=subprocess.DEVNULL, stderr=subprocess.DEVNULL)
    shutil.rmtree(wt, ignore_errors=True)
    subprocess.run(["git", "-C", "/repo", "worktree", "add", "-q", "--detach", wt, "HEAD"], check=True)
    try:
        p = subprocess.run(["git", "apply", os.path.join(d, "patch.diff")], cwd=wt)
        if p.returncode != 0:
            subprocess.run(["patch", "-p1", "-s", "-i", os.path.join(d, "patch.diff")], cwd=wt, check=True)
        e = dict(os.environ, VERIF_REPO=wt, VERIF_SELFTEST="1", VERIF_SHRINKTIME="3s",
                 VERIF_EVIDENCE_DIR=os.path.join(VERIF, ".build", "seed-evidence"), VERIF_REPLAYS_DIR=os.path.join(VERIF, ".build", "seed-replays"))
        t0 = time.time()
        p = subprocess.run([os.path.join(VERIF, "check"), prop, "--tier", "quick"], env=e, stdout=subprocess.PIPE, stderr=subprocess.STDOUT, text=True)
        caught = p.returncode == 1 and "VIOLATION property=" in p.stdout
        q = {"exit": p.returncode, "caught": caught, "seconds": round(time.time() - t0, 1),
             "first_violation": next((l for l in p.stdout.splitlines() if l.strip().startswith("check=")), "")[:400]}
        r = meta.setdefault("confirmed_by_lead", {})
        if not r.get("check_quick", {}).get("caught") and "check_quick_first_version" not in r:
            r["check_quick_first_version"] = r.get("check_quick")
        r["check_quick"] = q
        json.dump(meta, open(os.path.join(d, "meta.json"), "w"), indent=1, ensure_ascii=False)
        print(sid, "caught" if caught else "MISSED (exit %d)" % p.returncode, q["seconds"], q["first_violation"][:200])
        if not caught:
            rc_all = 1
            print(p.stdout[-1500:])
        shutil.rmtree(os.path.join(VERIF, ".build", "seed-replays"), ignore_errors=True)
    finally:
        subprocess.run(["git", "-C", "/repo", "worktree", "remove", "--force", wt], stdout=subprocess.DEVNULL, stderr=subprocess.DEVNULL)
        shutil.rmtree(wt, ignore_errors=True)
sys.exit(rc_all)
