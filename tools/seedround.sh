#!/bin/bash
# tools/seedround.sh <round> <Cxx> <first-seed-number>: confirm and check every change a round's sub-agent delivered for one property
r=$1; p=$2; n=$3
for k in 1 2 3; do
  d=/tmp/seedout$r-$p/change$k
  [ -f $d/meta.json ] || continue
  python3 /verif/tools/seedcheck.py $d $p-s$n > /tmp/seedout$r-$p/report$k.json 2>&1
  python3 - /tmp/seedout$r-$p/report$k.json $p-s$n <<'PY'
import json,sys,re
t=open(sys.argv[1]).read()
try:
    j=json.loads(t[t.index('{'):])
    q=j.get('check_quick',{}); th=j.get('check_thorough_scaled_0.2',{})
    print(sys.argv[2], j.get('verdict'), '| quick caught:', q.get('caught'), q.get('seconds'), '| thorough caught:', th.get('caught'), '|', (q.get('first_violation') or th.get('first_violation') or '')[:160])
except Exception as e:
    print(sys.argv[2], 'REPORT UNREADABLE', t[-300:])
PY
  n=$((n+1))
done
