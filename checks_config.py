"""Per-property configuration of the driver: which harness packages decide the
property, how they are sharded, their wall budgets, claimed level, assumptions."""

def G(pkg, race=False, shards=None, timeout=None, run=None, env=None, tiers=None, race_classified=False):
    g = {"pkg": pkg, "race": race}
    if race_classified: g["race_classified"] = True
    if shards: g["shards"] = shards
    if timeout: g["timeout"] = timeout
    if run: g["run"] = run
    if env: g["env"] = env
    if tiers: g["tiers"] = tiers
    return g

CONFIG = {
    "C01": {
        "level": "exploration",
        "rule": "C01: rapid-generated write programs over all Write* methods checked against an independent reference encoder and by read-back, plus exhaustive sweeps of the fixed-width helpers.",
        "groups": [G("c01", shards={"quick": 4, "thorough": 16}, timeout={"quick": 300, "thorough": 1800})],
        "assumptions": [
            "24-bit and 40-bit integer arguments are within the width of the field (the format cannot represent others)",
            "arrays have at most 32767 elements, short-length byte strings at most 65535 bytes (limits of the 16-bit count fields)",
            "nil and empty byte strings / arrays are the same value on the wire",
            "the reference encoder in harness/ref was written from the protocol layout and shares no code with golib",
        ],
    },
    "C02": {
        "level": "exploration",
        "rule": "C02: rapid-generated tagged values (all 20 type codes, nested, wide, deep) encoded by golib and by an independent reference encoder, decoded by both, re-encoded; mutated encodings and (thorough) native fuzzing compare golib's decoder with the reference decoder.",
        "groups": [G("c02", shards={"quick": 4, "thorough": 16}, timeout={"quick": 300, "thorough": 1800})],
        "fuzz": [{"pkg": "c02", "name": "FuzzReadValue", "seconds": 180}],
        "ulimit_v_kb": 8 * 1024 * 1024,
        "assumptions": [
            "arrays have at most 32767 elements (16-bit count field); map keys are distinct",
            "nil and empty byte strings / arrays are the same value on the wire",
            "inputs the reference decoder rejects are not constrained by this property (C04 covers them)",
            "the reference codec in harness/ref shares no code with golib",
        ],
    },
    "C03": {
        "level": "exploration",
        "rule": "C03: every pack type (24 registered through the factory + 13 with their own Write/Read) built by constructor + reflective fill of every field + fix-ups for documented preconditions, serialized, deserialized and re-serialized.",
        "groups": [G("c03", shards={"quick": 4, "thorough": 16}, timeout={"quick": 300, "thorough": 2400})],
        "fuzz": [{"pkg": "c03", "name": "FuzzPackFixpoint", "seconds": 180}],
        "ulimit_v_kb": 8 * 1024 * 1024,
        "assumptions": [
            "byte-counted sections hold at most 255 entries, arrays at most 32767 elements, Int3 fields are within 24 bits",
            "SMBasePack: the Cpu/Memory implementation matches OS the way Read dispatches (Linux/OSX/AIX/HPUX -> Linux structs, Windows -> Windows structs)",
            "ProfilePack.Transaction, SMLogEvent.Keyword/LogRule, LogSinkPack.Tags are non-nil (the writers dereference them)",
            "EventPack user attributes are strings and do not use the four reserved keys; at most 251 of them",
            "HitMapPack1 arrays have 120 entries of 0..65535",
            "fields no writer emits are not compared: EventPack.Eid, ServerInfoPack.Host and header, CounterPack1.ActiveStatKeys/CollectIntervalMs, TxMeter.Acts, DiskPerf.Count/NetPerf.Count (constant 1), StatTransactionPack*.Version, StatGeneralPack.DataStartTime for type 0x0910, TransactionRec.Profiled and the fields beyond the record's layout version",
            "TxRecord: optional groups are compared only when their presence condition held; ErrorLevel 0 with Error != 0 decodes as WARNING (documented default)",
            "open known findings F13 and F38 are excluded by construction (see known_findings.json)",
        ],
    },
    "C05": {
        "level": "exploration",
        "rule": "C05: bodies of the eight covered pack types and complete TCP frames compared byte for byte with an independent encoder written from the protocol layout; frozen samples guard against consistent drift.",
        "groups": [G("c05", shards={"quick": 4, "thorough": 16}, timeout={"quick": 300, "thorough": 2400})],
        "assumptions": [
            "the reference encoder (harness/ref/pack.go) was written from the layout stated in the property and from this code base's writer, not from an external specification: it detects change and disagreement with the stated layout, not an error that predates both",
            "entry order inside the unordered DB-pool maps of the counter pack is the map's own enumeration order (implementation-defined)",
            "EventPack user attributes do not use the four reserved keys",
            "open known finding F13: the reference pins the writer's layout of TxcallerPOidMeter; the map stays nil/empty in generated packs while F13 is open",
        ],
    },
    "C08": {
        "level": "exploration",
        "rule": "C08: generated step streams (9 registered step types, all HttpcStepX versions), single steps of all 11 types through their own Write/Read, transaction records with every combination of optional groups, service records.",
        "groups": [G("c08", shards={"quick": 4, "thorough": 16}, timeout={"quick": 300, "thorough": 1800})],
        "assumptions": [
            "AbstractStep.Drop/Opt and AbstractService.Mtid/Mdepth/Mcaller (shadowed by WasService's own fields) are not carried by any writer",
            "optional sections are compared only when their presence condition held (HttpcStepX details: version 2; SqlStep_3 sections: Opt bits 1/2/4; TxRecord groups: Mtid != 0, McallerPcode != 0, Fields non-empty); ErrorLevel 0 with Error != 0 decodes as WARNING",
            "stack arrays have at most 32767 elements; TxRecord.Fields at most 255 entries",
            "MessageStepX and SqlStep_3 are not registered with ReadStep and are exercised through their own Write/Read only",
        ],
    },
    "C20": {
        "level": "exploration",
        "rule": "C20: triples of related values (clone, local mutation, same-type, any-type) with all nine ordered Equals/CompareTo results checked against the algebraic laws; containers changed in place after a comparison re-checked against the same laws.",
        "groups": [G("c20", shards={"quick": 4, "thorough": 16}, timeout={"quick": 300, "thorough": 2400})],
        "assumptions": [
            "NaN is excluded from float scalars, summaries and float arrays (the library compares with IEEE ==, which is not reflexive on NaN; the statement does not quantify over NaN)",
            "blob and array payloads are non-nil or nil (nil only in place of an empty payload: what a nil payload encodes to); text payloads are Go strings and cannot be nil",
            "comparison with a nil interface value is outside the domain",
            "summaries count as scalars for the zero-iff-equal clause (equality and comparison both look at sum and count only)",
        ],
    },
    "C04": {
        "level": "fault_enumeration",
        "rule": "C04: fault enumeration over generated valid encodings: every strict prefix, hostile count/length patterns at every offset, single hostile annotated fields, every short primitive read, every unknown type code; pooled UDP decodes depend only on their input; every string a valid decode holds occurs in its input.",
        "groups": [G("c04", shards={"quick": 4, "thorough": 16}, timeout={"quick": 600, "thorough": 3000})],
        "fuzz": [{"pkg": "c04", "name": "FuzzDecoders", "seconds": 240}],
        "ulimit_v_kb": 8 * 1024 * 1024,
        "assumptions": [
            "reporting failure means a recoverable panic (the library's convention); a decoder that returns normally on a strict prefix is a violation unless the format defines that prefix as a complete message (only: a step stream cut at a step boundary)",
            "memory bound: bytes allocated during one decode <= 1 MiB + 2048 x input length, measured with runtime/metrics /gc/heap/allocs:bytes on a locked OS thread (large objects are counted at once, small ones lazily: the meter can only under-report)",
            "decompression (LogSinkZipPack.GetRecords) allocates proportionally to the decompressed size and is not part of the enumerated decoders; reading from a TCP connection is out of scope",
            "termination is observed with a 30 s watchdog per decode",
            "UDP tracer packs and HyperLogLog bytes are not among the decoders the statement names (value, step, record, pack)",
        ],
    },
    "C07": {
        "level": "exploration",
        "rule": "C07: writer-derived carriage (no second copy of the version-gate table) over 19 UDP pack types x all gate versions, pool histories with poison values, generated connection strings for password masking.",
        "groups": [G("c07", shards={"quick": 4, "thorough": 16}, timeout={"quick": 300, "thorough": 1800})],
        "assumptions": [
            "text fields are at most 65535 bytes (16-bit length); versions are gate constants +-1, family boundaries +-1 and random in-family values",
            "writer truncation Truncate(field, CONST) is the documented cap of the transaction-start (and message) fields: the reader must restore the first cap bytes",
            "ActiveStack data has >= 3 comma-separated parts, ActiveStats holds 5 counters or none (Process preconditions); UdpRelayPack.Read is given Len = len(payload) (not on the wire)",
            "fields derived by Process() are not wire fields; pool reuse is counted, never required",
            "masking: the marker occurs only in values of tokens whose key is exactly 'password'; keys such as Password/pwd are outside the statement",
        ],
    },
    "C16": {
        "level": "exploration",
        "rule": "C16: stateful histories on the log-sink zip sender with a recording client that retains packs; model of the flush rule; queue mode with the real run loop; built-in defaults.",
        "groups": [G("c16", shards={"quick": 4, "thorough": 16}, timeout={"quick": 300, "thorough": 2400})],
        "assumptions": [
            "record times are positive and non-decreasing (time 0 is the sender's 'no batch open' sentinel); wait time >= 1 ms",
            "records still in the queue at the instant of stop are not required to be emitted: the harness waits for the queue to drain before stopping",
            "ApplyConfig with a configuration that lacks the keys is not exercised (its own fall-back values differ from the built-in defaults; the statement is ambiguous there)",
            "queue mode uses real time for the idle time-out (20-50 ms); the only wall-clock bound is the 30 s drain guard",
            "uses the verif hooks zip.NewForVerif / FlushForVerif / StopForVerif / SettingsForVerif / ResetInstanceForVerif",
        ],
    },
    "C11": {
        "level": "exploration",
        "rule": "C11: sequential state machines for both request queues against a slice+capacity model with callback recording, and concurrent producer/consumer scenarios with schedule-independent accounting; the concurrent sub-checks also run under the race detector.",
        "groups": [G("c11", shards={"quick": 4, "thorough": 16}, timeout={"quick": 400, "thorough": 1800}),
                   G("c11", race=True, run="TestConc", shards={"quick": 4, "thorough": 16}, timeout={"quick": 400, "thorough": 1800})],
        "assumptions": [
            "elements are never nil (nil is the queue's 'empty' answer); timeouts are 1-30 ms",
            "one-sided timeout rule: the elapsed time of an empty-handed timed get is counted in ticks of the millisecond wall clock the queue itself uses, and a violation additionally needs the monotonic elapsed time to be short; no upper bound on time is asserted",
            "the blocking Get is issued sequentially only when an element is available; SetCapacity and Clear are only called sequentially (SetCapacity takes no lock); capacity is fixed during concurrent scenarios",
            "the return value of PutForce is not asserted; the double queue's refusal/eviction callbacks have no setter and are observed through return values and content only",
            "hang / lost wake-up limit 30 s (the only wall-clock bound); Size() is only called at quiescence (open finding F25 is a C10 matter)",
        ],
    },
    "C12": {
        "level": "exploration",
        "rule": "C12: operation histories on IntIntMap, IntKeyMap, IntSet, StringSet against Go map models, every return value and Size() after every step, enumerations as multisets, wire form of IntIntMap.",
        "groups": [G("c12", shards={"quick": 4, "thorough": 16}, timeout={"quick": 400, "thorough": 3000})],
        "assumptions": [
            "IntIntMap is constructed with capacity >= 1 (no guard in the constructor), load factors 0.1..4; IntKeyMap values are non-nil and comparable",
            "the empty string is not storable in StringSet (consistent across all its methods)",
            "enumerators are consumed while the structure is not modified and never past the end; single goroutine, except intintmap-shared-counting (2-8 goroutines adding to one IntIntMap, accounting oracle sound for any schedule)",
            "NewIntSetArray / NewStringSetArray are only called with nil",
        ],
    },
    "C13": {
        "level": "exploration",
        "rule": "C13: operation histories on the five typed lists and the linked list against slice models, wire form against the reference, sorting as a validity predicate (permutation + ordered), filtering.",
        "groups": [G("c13", shards={"quick": 4, "thorough": 16}, timeout={"quick": 300, "thorough": 2400})],
        "assumptions": [
            "no NaN elements; self-append l.AddAll(l) is never issued",
            "foreign-flavour Add/Set/Get is compared only where the conversion is exact (|v| <= 2^24 for float, <= 2^53 for double, canonical decimal text)",
            "child lists have the size of the primary list, numeric child values within +-2^53 (the child comparator works in float64)",
            "Read is applied to a fresh list; LinkedList.Remove/PutBefore only receive live nodes of that list; list sizes far below 2^23",
            "typed-list remove is unexported (unreachable) and the Sort() stubs of four list types return nothing: neither is checked",
        ],
    },
    "C09": {
        "level": "exploration",
        "rule": "C09: one generated operation history per case for each of the 13 linked map/set types over every public method, against a slice-ordered dictionary model with bound and put modes; full enumerations compared after every step.",
        "groups": [G("c09", shards={"quick": 4, "thorough": 16}, timeout={"quick": 400, "thorough": 3000})],
        "assumptions": [
            "single goroutine (except sort-is-one-operation and sorts-of-two-instances, whose verdicts hold for any schedule); capacity >= 1 where the constructor has no guard (capacity 0 only for IntKey and LongLong), capacity <= 200, load factor in {0.1..4}",
            "comparators are strict total orders; interface values are non-nil ints or strings; floats contain no NaN",
            "enumerators are consumed only up to the end and not across mutations; first/last on an empty structure must only not panic",
            "'no value' means NONE or 0 for numeric APIs and nil, \"\" or 0 for interface APIs",
            "StringIntLinkedMap/StringLongLinkedMap treat \"\" as the null key (explicit guard at the top of put/add, consistent across their methods): the model ignores it for these two types",
            "sort = collect, sort, clear, re-insert: with a bound lowered below the current size a sort keeps the last max entries of the sorted order",
        ],
    },
    "C14": {
        "level": "exploration",
        "rule": "C14: HyperLogLog against an independent register model (bytes, Offer result, estimator), order/duplicate/merge laws, rebuild, accuracy envelope; RegisterSet against a byte-array model.",
        "groups": [G("c14", shards={"quick": 4, "thorough": 16}, timeout={"quick": 300, "thorough": 1800})],
        "assumptions": [
            "precision 4..16; only counters of equal precision are merged; RegisterSet values are 0..31",
            "the accuracy envelope max(3, 12*1.04/sqrt(m)*n, 0.06n) (small sets: Chernoff bound on hash collisions) applies only to items not chosen by their hash (random or consecutive integers); crafted/strided items get the exact-model checks only",
            "offerHashedLong/clz64 are unreachable from the exported API and not exercised",
        ],
    },
    "C15": {
        "level": "exploration",
        "rule": "C15: hashes against independently generated references (all byte strings of length 0..2 exhaustively, random to 4 KiB, frozen vectors), hexa32/bitutil/iputil inverses with exhaustive sweeps.",
        "groups": [G("c15", shards={"quick": 4, "thorough": 16}, timeout={"quick": 300, "thorough": 3600})],
        "assumptions": [
            "murmur byte hashes take bytes as unsigned and use the stream-lib tail layout (the values are pinned by frozen vectors recorded from the pinned tree)",
            "the length argument of MurmurHashLongByte satisfies 0 <= length <= len",
            "hexa32's inverse direction covers canonical lowercase texts; iputil is checked on 4-byte addresses and dotted-quad text",
            "the Hash64v2 reference restates the update rule (no external specification); independence comes from the generated table, the two-lane formulation and the frozen vectors",
        ],
    },
    "C19": {
        "level": "exploration",
        "rule": "C19: calendar helpers for every day 2000-01-01..2099-12-31 at boundary offsets (exhaustive) and random instants against time.UnixMilli(t).UTC(); DateFormat round trips over generated patterns.",
        "groups": [G("c19", shards={"quick": 4, "thorough": 16}, timeout={"quick": 300, "thorough": 1800}, env={"TZ": "UTC"})],
        "assumptions": [
            "instants lie in 2000-01-01..2099-12-31 UTC; the helpers use the fixed UTC table regardless of TZ",
            "DateFormat patterns have all or none of y/m/d and at least one field; Parse uses time.Local, pinned to UTC; fields absent from a pattern are not compared (Parse fills them from the wall clock)",
            "weekday is compared by index in the library's own Mon..Sun vocabulary",
        ],
    },
    "C06": {
        "level": "exploration",
        "rule": "C06: stateful histories on the one-way TCP client against a harness-owned loopback peer that injects connection faults; queue mode with the real drain goroutine.",
        "groups": [G("c06", shards={"quick": 4, "thorough": 16}, timeout={"quick": 600, "thorough": 3000})],
        "assumptions": [
            "TCP lets a write into a half-closed peer succeed: sends issued after a fault and before the client has returned its first error may be lost silently (no constraint on them, except that whatever arrives is whole, correct and not duplicated)",
            "'detectable' starts at the first error the client returns: from then on, with the listener up, a nil send must occur within three further sends and must arrive on a new connection",
            "the only wall-clock bound is the 15 s bounded-safety guard for a frame to arrive on loopback",
            "queue mode with the listener down (5 s sleeps inside the client) is not exercised; race-freedom of the client's own fields is not asserted (not in the statement)",
            "uses the verif hooks oneway.NewForVerif / StartProcessForVerif; the client's write time-out is shortened to 5 s",
        ],
    },
    "C10": {
        "level": "exploration",
        "rule": "C10: exhaustive self-deadlock sweep over every public method of the 20 collection types; generated concurrent programs checked for linearizability (porcupine) and structural integrity; the same kind of programs under the race detector with classified reports.",
        "groups": [G("c10", run="TestMethodSelfDeadlock|TestLinearizability|TestDrainStress|TestBlockingGetStress|TestCrossPutAll|TestAddStress|TestGrowthStress|TestBoundStress|TestFreshStructureStress", shards={"quick": 4, "thorough": 16}, timeout={"quick": 600, "thorough": 3000}),
                   G("c10", race=True, race_classified=True, run="TestKnownFindings|TestRaceDetector|TestRacePairs|TestRaceInstances|TestGrowthStress", shards={"quick": 4, "thorough": 16}, timeout={"quick": 600, "thorough": 3000}),
                   # the library's cached-clock mode is chosen by an environment variable read at start-up
                   G("c10", run="TestMethodSelfDeadlock", env={"WHATAP_DATETIME_MODE": "sync"}, shards={"quick": 1, "thorough": 2}, timeout={"quick": 600, "thorough": 1200})],
        "assumptions": [
            "the sequential specification used by the linearizability check is the structure's own single-goroutine behaviour (replayed on a fresh instance); that behaviour is checked against independent models by C09/C11/C12/C13",
            "the Go scheduler is not controlled: concurrent sub-checks sample schedules (spin barrier, 16 cores); the race detector reports unsynchronised access pairs from happens-before, not from unlucky timing; absence of a report is not absence of a bad interleaving",
            "a blocking dequeue (Get) on a queue without a producer waits by contract and is not issued; GetTimeout is issued with millisecond time-outs",
            "self-deadlock is decided from goroutine stacks (parked on a sync primitive inside golib in three consecutive samples on an instance nobody else touches), not from a wall-clock bound",
            "open known finding F25: race reports whose racing read is Size/IsEmpty/IsFull (unlocked readers) are counted, not reported as new violations",
        ],
    },
    "C17": {
        "level": "exploration",
        "rule": "C17: stateful histories on a logger without background goroutine under a virtual clock against a file-system + rate-limiter model; Read windows over inside/outside names; concurrent logging with a schedule-independent oracle.",
        "groups": [G("c17", shards={"quick": 4, "thorough": 16}, timeout={"quick": 400, "thorough": 2400}, env={"TZ": "UTC"})],
        "assumptions": [
            "the virtual clock is real time plus a delta and stays within 2001-2087; dates are UTC days; a case whose clock bracket straddles midnight during logger creation or a cycle is skipped",
            "limiter ids are non-empty and few enough that the 1000-entry limiter store never evicts; message-keyed messages start with exactly 10 prefix bytes; messages are single-line and carry a unique marker",
            "suppression is modelled as 'iff same id within the interval'; level-gated calls do not touch the limiter; between a date/rotation change and the next cycle a line may be in either file",
            "with rotation off or keep-days <= 0 files past keep-days are not asserted (ambiguous in the statement), everything else must stay intact",
            "own-prefix dated files with an extension other than .log are not planted; Read lengths are >= 1, name resolution is lexical, no symlinks",
            "uses the verif hooks logfile.NewNoRunForVerif / CycleForVerif / CloseForVerif (the real 10 s goroutine and its one-minute gate are bypassed)",
        ],
    },
    "C18": {
        "level": "exploration",
        "rule": "C18: stateful edit/reload histories with typed-getter oracle and observers, write-back merge oracle with an independent properties reader, concurrent getters under the race detector, crash-point enumeration of one write through a recorded syscall trace.",
        "groups": [G("c18", shards={"quick": 4, "thorough": 16}, timeout={"quick": 500, "thorough": 2400}),
                   G("c18", race=True, run="TestRace", shards={"quick": 4, "thorough": 16}, timeout={"quick": 500, "thorough": 1800})],
        "assumptions": [
            "keys match [A-Za-z_][\\w.\\-]*, are unique per file and are not environment variables (the getters fall back to os.Getenv)",
            "values are printable Unicode or tab, no newline, no leading blank, no ${ (the properties library expands it and terminates the process on malformed expressions), no doubled backslash (the writer collapses it on purpose), only blank/tab as trailing whitespace; key lines use '=' as separator",
            "getters are compared on the trimmed value (GetValue trims); empty values are not asserted (apply merges only non-empty values, removed keys stay visible)",
            "key lines are compared semantically (the writer normalises 'k = v' to 'k=v'); comment and blank lines must be byte-identical and in order",
            "crash points are those between the system calls of one recorded run of SetValues (process stop), not power loss; needs strace (ptrace works in the sandbox), otherwise a weaker polling reader is used and flagged in evidence",
            "WHATAP_HOME / WHATAP_CONFIG_HOME / WHATAP_CONFIG are unset; the only wall-clock bounds are hang detectors (30 s in-process, 180 s concurrent child, 120 s strace helper)",
            "uses the verif hooks conffile.NewForVerif / ReloadNowForVerif",
        ],
    },
}

NOT_APPLICABLE = {}

MANIFEST_TEXT = {
    "C18": {
        "technique": "stateful property-based testing (edit/reload/getter histories, write-back merge), race detector on generated reader/reload programs, crash-point enumeration by replaying a recorded syscall trace against a file-system model",
        "level_text": "Generated-history exploration: file versions with adversarial values and same-second edits, typed getters against strconv, observers; write-back checked with an independent properties reader (old ∪ new, comments and order preserved); getters spinning during reloads under -race; for one SetValues per case every prefix of the recorded syscall sequence is evaluated on a file-system model: the path must always hold the complete old or the complete new content.",
        "level_note": "Crash points = points between system calls of the recorded run. Reader/reload interleavings are sampled by the scheduler.",
    },
    "C17": {
        "technique": "stateful (model-based) property-based testing under a virtual clock: file-system + rate-limiter model, planted look-alike files for retention, Read window oracle, concurrent logging with schedule-independent oracle",
        "level_text": "Generated-history exploration: log calls over all 12 methods with colliding limiter ids, clock advances across midnights and interval boundaries, cycles, configuration changes and planted files (own dated files of every age, own-prefix non-dates, foreign look-alikes, directories); after every cycle the complete logs directory is compared with the model. Read is exercised with 29 name templates incl. traversal.",
        "level_note": "Lines are identified by unique markers, not by formatting details. Goroutine interleaving in the concurrent sub-check is whatever the scheduler gives.",
    },
    "C10": {
        "technique": "exhaustive enumeration of (type, method, state) for self-deadlock; generated concurrent programs with linearizability checking (porcupine) and race-detector report classification",
        "level_text": "Exhaustive over every exported method of the 20 collection types in three states for the self-deadlock clause (decisive); generated-program exploration for linearizability (invocation/response histories checked with porcupine against the sequential behaviour, structural audit after every run) and for data races (binary built with -race, each report attributed to its case and classified).",
        "level_note": "Schedules are sampled, not enumerated: a violation that needs a narrow interleaving may be missed. porcupine's verdicts are sound for the interleaving that happened.",
    },
    "C06": {
        "technique": "stateful property-based testing with fault injection: generated send/burst/fault histories against a harness-owned TCP peer, frame-stream well-formedness and exactly-once/order accounting oracle",
        "level_text": "Generated-history exploration: sends of packs from 30 bytes to 2.5 MB (beyond the 2 MiB write buffer), concurrent bursts from up to 8 goroutines, peer faults at generated byte offsets (mid-header, mid-payload, between frames, reset, listener down/up); every byte every connection received is parsed into frames and compared with reference frames; healthy-connection delivery, recovery after the first reported error and per-sender order are asserted.",
        "level_note": "The goroutine schedule inside the client is not controlled; the oracle is sound for any schedule. Liveness ('reconnects on a later send') is checked as bounded safety.",
    },
    "C09": {
        "technique": "stateful (model-based) property-based testing: generated operation histories over every public method of 13 types against a bounded insertion-ordered dictionary model, invariant after every step",
        "level_text": "Generated-history exploration: per type hundreds (quick) to 30000 (thorough) histories of up to 400 operations with keys chosen to collide, cross table growth, hit evictions, sort after removal; after every step the return value, size, first/last and the complete key/value/entry enumerations are compared with the model.",
        "level_note": "At most ~420 entries (three growths of a default table). Hang detection is CPU/stack based, not wall-clock based.",
    },
    "C14": {
        "technique": "property-based testing against an exact reference model (registers, serialisation, estimator) plus metamorphic relations (permutation, duplication, merge = union, rebuild)",
        "level_text": "Generated-input exploration: item multisets over all precisions and both offer paths; bytes, Offer results and Cardinality compared exactly with an independent model, merge laws checked in both orders, accuracy sanity envelope.",
        "level_note": "The estimator reference follows the HyperLogLog paper; accuracy is only a gross-error guard.",
    },
    "C15": {
        "technique": "exhaustive sweeps of small domains + property-based testing against independent reference implementations; frozen golden vectors",
        "level_text": "Exhaustive for all byte strings of length <= 2, 16-bit (and in the thorough tier 32-bit) integer domains and all 2^32 IPv4 addresses; random exploration beyond; every hash pinned by frozen vectors.",
        "level_note": "References are written from the algorithms the code documents it ports; frozen vectors were recorded once from the pinned tree.",
    },
    "C19": {
        "technique": "exhaustive enumeration of all 36525 days x boundary offsets + property-based testing of random instants against the standard library calendar; round-trip oracle for the pattern formatter",
        "level_text": "Exhaustive over every day of the century at ten intra-day boundary offsets, random instants beyond, all against time.UnixMilli(t).UTC(); unit functions checked as monotone step functions at every boundary.",
        "level_note": "Trusts Go's time package as the proleptic Gregorian reference.",
    },
    "C11": {
        "technique": "stateful property-based testing against a slice+capacity model with callback recording; generated concurrent producer/consumer scenarios with exactly-once/order accounting, lost-wake-up watchdog and race detector",
        "level_text": "Generated-history exploration: thousands of sequential histories over every queue operation (return values, Failed/Overflowed arguments, content after every step) and thousands of concurrent scenarios (1-4 producers, 1-4 consumers incl. consumers parked before the first put, bounded/unbounded, mixed put/put-force) judged by accounting that is sound under any schedule; the concurrent sub-checks are repeated under -race.",
        "level_note": "Goroutine schedules are sampled, not controlled; liveness is checked as bounded safety (30 s).",
    },
    "C12": {
        "technique": "stateful property-based testing: generated operation histories against Go map/set models, multiset enumeration oracle, reference wire encoding",
        "level_text": "Generated-history exploration: up to a million histories per type in the thorough tier over every public method with keys chosen to collide before and after table growth; every return value and Size() is compared with the model after every step.",
        "level_note": "Single goroutine; hash collisions of IntKeyMap rely on small capacities.",
    },
    "C13": {
        "technique": "stateful property-based testing against slice models; sorting checked by a validity predicate (permutation + ordering), filtering by direct indexing; reference wire encoding",
        "level_text": "Generated-history exploration of the typed lists and the linked list (indices from -2 to beyond capacity, out-of-range must panic and leave the list unchanged) and of the sorting functions on inputs with many duplicates in all four direction combinations.",
        "level_note": "Sort lengths capped at 300; unstable sort, so only validity is asserted, not one expected answer.",
    },
    "C16": {
        "technique": "stateful property-based testing: generated append/send-direct/flush histories against a model of the flush rule, exactly-once/in-order accounting, retained-pack aliasing oracle; concurrent producers with the real run loop",
        "level_text": "Generated-history exploration: hundreds to tens of thousands of histories with generated settings; every emitted pack is decoded (gunzip iff flagged), its record count, compression decision and batch boundary compared with the model, the concatenated stream compared record by record with what was handed in, and every retained pack re-serialised at the end to detect later alteration. Queue-mode cases run the real goroutine with 1-4 producers and a schedule-independent oracle.",
        "level_note": "The goroutine schedule in queue mode is whatever the Go scheduler does; the oracle is sound for any schedule but a violation needing a narrow interleaving may be missed.",
    },
    "C07": {
        "technique": "property-based testing: metamorphic field-perturbation oracle for writer/reader agreement per version, stateful pool histories with poison values, generated connection strings for masking; exhaustive type x gate-version grid",
        "level_text": "Generated-input exploration: for every UDP pack type and every protocol version next to a gate the set of fields a version carries is learnt from the writer by perturbing one field at a time, and the reader must restore exactly those fields, consume exactly the bytes and re-encode identically; acquire/fill/release histories check that pooled packs carry no residue; thousands of generated connection strings check that no password value survives Process().",
        "level_note": "The carriage oracle derives the expected layout from the writer, so a gate changed identically on both sides is not detected (there is no external specification of the UDP protocol in the sandbox).",
    },
    "C04": {
        "technique": "fault enumeration over generated encodings (every truncation offset, hostile length/count patterns at every offset, single hostile annotated field vs reference decoder), exhaustive short-read and unknown-code sweeps, native coverage-guided fuzzing with an allocation-bound oracle",
        "level_text": "Fault enumeration: for generated valid encodings of every decoder the statement names (values, step streams, transaction/service records, all 37 pack type entries, record blobs, zip payloads) EVERY strict prefix is decoded and must be reported as failure, and 15 hostile count/length patterns are written over and inserted at EVERY offset with termination and a proportional-allocation bound checked per decode; every (read method, missing bytes) combination of the primitive reader and every type code of the four registries is enumerated exhaustively.",
        "level_note": "The message space is sampled (hundreds to tens of thousands of messages), the fault space per message is enumerated completely for messages up to 1 KiB. Allocation is measured in-process; a worker that dies is replayed from its journal by the driver.",
    },
    "C20": {
        "technique": "property-based testing: generated triples of near values checked against algebraic laws (totality, reflexivity, symmetry, transitivity, antisymmetry, type ordering, decode equality)",
        "level_text": "Generated-input exploration: each case is a triple of related values over all 20 types (clones, single mutations such as a reordered or re-keyed map, a changed summary count, a retyped element, independent values); all nine ordered pairs are evaluated and every law of the statement is asserted on them, plus the full 20x20 mixed-type matrix. A second sub-check compares a container, changes it in place (Put, PutAll, Read into the used object, Clear, NewList, Add, Set, also on nested containers) and re-evaluates every law on (container, its decoded encoding, other value) after each change.",
        "level_note": "Laws are checked on sampled triples; transitivity violations that need three specific unrelated values may be missed.",
    },
    "C08": {
        "technique": "property-based testing: generated step lists and records, round-trip with per-step consumption accounting, concatenation and re-encoding oracles",
        "level_text": "Generated-input exploration: lists of up to 60 steps with all fields filled are encoded, carried through the three packs that embed step blobs, and decoded step by step with the number of bytes each step consumes compared with its own encoding; transaction and service records cover every combination of their optional groups.",
        "level_note": "The not-carried field list is hand-written (evidence assumptions). Trusts reflection for field comparison.",
    },
    "C05": {
        "technique": "property-based testing: generated packs vs independent reference encoder of the protocol layout (bodies and complete frames received over loopback TCP); frozen golden samples",
        "level_text": "Generated-input exploration: thousands of packs of the eight covered types (every optional section present/absent, both header forms) are compared byte for byte with a reference encoder written from the protocol layout, and complete frames sent by a real one-way client are captured on a loopback listener and compared with the reference frame (source, version, project code, license hash in force, exact length). 48 frozen samples pin today's layout.",
        "level_note": "No collector or external specification exists in the sandbox: conformance means agreement with the independently written encoder of the stated layout. Uses the verif hook oneway.NewForVerif.",
    },
    "C02": {
        "technique": "property-based testing: generated values vs independent reference codec (encode, decode, re-encode); differential decoding of mutated encodings; native coverage-guided fuzzing of ReadValue against the reference decoder",
        "level_text": "Generated-input exploration of the value model: recursive values over all 20 type codes with boundary scalars, containers past table growth, deep nesting (to 20000 levels in the thorough tier); every case is checked byte for byte against an independent encoder, decoded by golib and by the reference decoder, and re-encoded. Decoder agreement on mutated and fuzzed bytes guards against writer and reader being wrong consistently.",
        "level_note": "Trusts the reference value codec in harness/ref and the public getters used to walk golib values; depth is bounded by budget, not by the format.",
    },
    "C03": {
        "technique": "property-based testing: reflective fill of every field of every pack type from a generated choice stream; round-trip, exact-consumption, byte-identical re-encoding and reference-header oracles; container packs compared with what was put in",
        "level_text": "Generated-input exploration: for each of the 37 pack type entries thousands of field assignments (all header forms, optional sections present/absent, record lists, nested containers, compression on both sides of the threshold) are serialized and deserialized; the decoded pack must equal the original field by field (canonical form, bit-exact floats), consume exactly its bytes, re-encode identically. New fields are covered automatically by the reflective fill.",
        "level_note": "The list of fields the wire format does not carry is hand-written (printed in evidence assumptions); a field wrongly listed there would not be compared. Trusts reflection/unsafe access to unexported fields.",
    },
    "C01": {
        "technique": "property-based testing: generated write programs vs independent reference encoder + read-back; exhaustive sweeps of 16/24/32-bit patterns",
        "level_text": "Generated-input exploration: thousands (quick) to hundreds of thousands (thorough) of typed write programs compared byte for byte with an independent reference encoder and read back; every 16-, 24- and (thorough) 32-bit pattern is enumerated through the fixed-width helpers. Exhaustive for the fixed-width helpers, sampled for program space; it cannot prove absence of a defect that needs a specific long program.",
        "level_note": "Trusts the reference encoder in harness/ref (written from the protocol layout, no golib code) and Go's encoding/binary and math packages.",
    },
}
