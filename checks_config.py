"""Per-property configuration of the driver: which harness packages decide the
property, how they are sharded, their wall budgets, claimed level, assumptions."""

def G(pkg, race=False, shards=None, timeout=None, run=None, env=None, tiers=None):
    g = {"pkg": pkg, "race": race}
    if shards: g["shards"] = shards
    if timeout: g["timeout"] = timeout
    if run: g["run"] = run
    if env: g["env"] = env
    if tiers: g["tiers"] = tiers
    return g

CONFIG = {
    "C01": {
        "level": "exploration",
        "rule": "C01: rapid-generated write programs over all Write* methods checked against an independent reference encoder and by read-back, plus exhaustive sweeps of the fixed-width helpers.",
        "groups": [G("c01", shards={"quick": 4, "thorough": 16}, timeout={"quick": 300, "thorough": 1800})],
        "assumptions": [
            "24-bit and 40-bit integer arguments are within the width of the field (the format cannot represent others)",
            "arrays have at most 32767 elements, short-length byte strings at most 65535 bytes (limits of the 16-bit count fields)",
            "nil and empty byte strings / arrays are the same value on the wire",
            "the reference encoder in harness/ref was written from the protocol layout and shares no code with golib",
        ],
    },
}

NOT_APPLICABLE = {}

MANIFEST_TEXT = {
    "C01": {
        "technique": "property-based testing: generated write programs vs independent reference encoder + read-back; exhaustive sweeps of 16/24/32-bit patterns",
        "level_text": "Generated-input exploration: thousands (quick) to hundreds of thousands (thorough) of typed write programs compared byte for byte with an independent reference encoder and read back; every 16-, 24- and (thorough) 32-bit pattern is enumerated through the fixed-width helpers. Exhaustive for the fixed-width helpers, sampled for program space; it cannot prove absence of a defect that needs a specific long program.",
        "level_note": "Trusts the reference encoder in harness/ref (written from the protocol layout, no golib code) and Go's encoding/binary and math packages.",
    },
}
